#!/venv/bin/python
"""Confirm an independently seeded change and record it under /verif/seeded/<id>/.

usage: tools/confirm_seeded.py <Cxx> <name> [--no-tests] [--checks C03,C05]

Steps (all in the sub-agent's scratch worktree /tmp/wt_<Cxx>, never in /repo):
  1. clean worktree: demo.py must pass (exit 0)
  2. git apply patch.diff: demo.py must fail (exit != 0)
  3. pinned test suite with the change applied (PYTHONPATH=<worktree>) must still pass
  4. the listed checks' quick tier with VERIF_REPO=<worktree>: which of them print a VIOLATION
  5. git checkout -- . ; copy patch.diff / demo.py / notes.md and write meta.json
"""
import json
import os
import re
import shutil
import subprocess
import sys
import time

VERIF = os.path.dirname(os.path.dirname(os.path.abspath(__file__)))


def sh(cmd, cwd=None, env=None, timeout=7200):
    p = subprocess.run(cmd, shell=True, cwd=cwd, env=env, capture_output=True, text=True, timeout=timeout)
    return p.returncode, p.stdout + p.stderr


def main(argv):
    import signal

    def _term(signum, frame):
        raise SystemExit(143)  # so that the finally-clause restores the worktree
    signal.signal(signal.SIGTERM, _term)
    prop, name = argv[0], argv[1]
    no_tests = "--no-tests" in argv
    tests_only = "--tests-only" in argv
    checks = [prop]
    if "--checks" in argv:
        checks = argv[argv.index("--checks") + 1].split(",")
    wt = f"/tmp/wt_{prop}"
    if "--wt" in argv:
        wt = argv[argv.index("--wt") + 1]
    src = f"{wt}/_mutants/{name}"
    env = dict(os.environ, PYTHONPATH=wt, OMP_NUM_THREADS="1", MKL_NUM_THREADS="1")
    meta = {"id": f"{prop}-{name}", "breaks_property": prop, "worktree": wt, "confirmed_at": time.strftime("%Y-%m-%d %H:%M:%S")}
    rc, out = sh("git status --porcelain torchsde tests", cwd=wt)
    if out.strip():
        print("worktree not clean:", out)
        return 2
    rc, out = sh(f"timeout 1800 /venv/bin/python {src}/demo.py", cwd=wt, env=env)
    meta["demo_on_clean_tree"] = {"exit": rc, "tail": out[-300:]}
    print("demo clean:", rc)
    rc, out = sh(f"git apply {src}/patch.diff", cwd=wt)
    if rc != 0:
        print("patch does not apply:", out)
        return 2
    try:
        rc, out = sh(f"timeout 1800 /venv/bin/python {src}/demo.py", cwd=wt, env=env)
        meta["demo_with_change"] = {"exit": rc, "tail": out[-400:]}
        print("demo patched:", rc)
        if not no_tests:
            t = time.time()
            rc, out = sh("timeout 5400 /venv/bin/python -m pytest -q -p no:cacheprovider --timeout=900 -n 8 tests", cwd=wt, env=env)
            m = re.findall(r"(\d+) passed", out)
            f = re.findall(r"(\d+) failed", out)
            meta["pinned_suite_with_change"] = {"exit": rc, "passed": int(m[-1]) if m else None,
                                                "failed": int(f[-1]) if f else 0, "wall_s": round(time.time() - t)}
            print("suite:", meta["pinned_suite_with_change"])
        if not tests_only:
            meta["checks"] = {}
        for c in ([] if tests_only else checks):
            t = time.time()
            rc, out = sh(f"{VERIF}/check {c} quick", cwd=VERIF, env=dict(os.environ, VERIF_REPO=wt))
            found = [line for line in out.splitlines() if line.startswith("violation found")]
            viol = [line for line in out.splitlines() if line.startswith("VIOLATION")]
            mini = [line for line in out.splitlines() if line.startswith("minimised")]
            meta["checks"][c] = {"exit": rc, "caught": rc == 1 and bool(viol), "first": (found or [""])[0][:400],
                                 "minimised": (mini or [""])[0][:200], "wall_s": round(time.time() - t)}
            print(f"check {c}: exit={rc} {(found or [out[-300:]])[0][:200]}")
            if viol:
                # keep the minimised replay next to the seeded change
                rp = viol[0].split("replay=")[-1].strip()
                if os.path.exists(rp):
                    os.makedirs(f"{VERIF}/seeded/{prop}-{name}", exist_ok=True)
                    shutil.copy(rp, f"{VERIF}/seeded/{prop}-{name}/replay-{c}.json")
    finally:
        sh("git checkout -- .", cwd=wt)
    dst = f"{VERIF}/seeded/{prop}-{name}"
    os.makedirs(dst, exist_ok=True)
    for f in ("patch.diff", "demo.py", "notes.md"):
        if os.path.exists(f"{src}/{f}"):
            shutil.copy(f"{src}/{f}", f"{dst}/{f}")
    old = {}
    if os.path.exists(f"{dst}/meta.json"):
        old = json.load(open(f"{dst}/meta.json"))
    old.update(meta)
    json.dump(old, open(f"{dst}/meta.json", "w"), indent=1, sort_keys=True)
    print("recorded in", dst)
    return 0


if __name__ == "__main__":
    sys.exit(main(sys.argv[1:]))
