#!/venv/bin/python
"""Record the wave-6 seeded changes under /verif/seeded/<id>/ from the sub-agents' deliverables (/tmp/w6_<Cxx>/_mutants),
my own confirmation logs (/tmp/try_w6_*.log: demo on the clean / patched tree + quick-tier verdict with
VERIF_REPO=<scratch worktree at /repo's HEAD + patch>; /tmp/suite_w6_<Cxx>.txt: pinned suite with the change applied, run
by tools/suite_seeded.sh in the sub-agent's worktree). Run by hand, once."""
import glob
import json
import os
import re
import shutil
import time

VERIF = os.path.dirname(os.path.dirname(os.path.abspath(__file__)))

T = {
    # id: (what it does, what it needs to manifest, first verdict, strengthening)
    "C03-lazy_space_time": ("space-time mode tracks H only after the first return_U query; nodes computed before are silently recomputed with the (W, H) bridge (two cooperating sites)", "'space-time' object queried first without and later with return_U", "caught", ""),
    "C03-randn_default_dtype": ("noise drawn in the process default dtype and cast (found independently of C05-randn_default_dtype)", "default dtype switched between computing two siblings / a recomputation after eviction", "caught", ""),
    "C04-foster_rowsum_var": ("Foster variance term `H_i^2 + H_j^2` replaced by the row sum of H^2", "foster, return_A, at least 3 noise channels (correct for m = 2)", "caught", ""),
    "C04-falsy_tb_point_eval": ("`if not tb` for `tb is None` in BrownianInterval.__call__: an interval query ending exactly at time 0 becomes a point evaluation", "t0 < 0 <= t1 and a query ending exactly at 0.0", "caught", ""),
    "C05-empty_check_unrounded": ("empty-interval test compares unrounded times; a degenerate query then splits off a twin node with its own Levy seed", "tol > 0 (not dyadic), an existing node [s, e], a query whose ends both round to s, then a query inside (s, e]", "caught", ""),
    "C06-hint_prefix_reuse": ("search-hint fast path in `_loc`: the hint node is kept as first piece when the query starts at its start and runs past its end (non-canonical decomposition)", "two consecutive queries, the second starting where the last piece of the first starts and ending beyond it (e.g. tree(0.25); tree(0.5))", "caught", ""),
    "C06-levy_stream_str_hash": ("Levy-noise seed offset by `hash(levy_area_approximation)` - the string hash is salted per interpreter", "Davie/Foster, m >= 2, return_A, comparison across two interpreter sessions", "missed", "experiment X: a share of the experiment-D runs evaluates the replica once more in a fresh interpreter under another PYTHONHASHSEED (sim/altproc.py): `depends_on_interpreter_state_A`"),
    "C06-randn_default_dtype_cast": ("module-level `_randn` samples in the default dtype and casts (found independently)", "object dtype != default dtype and the default differing between the two replicas / moments", "caught", ""),
    "C07-sibling_noise_memo": ("a parent keeps the noise drawn for its left half in a `_noise` slot until the right half has used it: values kept alive outside the bounded cache", "left halves evaluated without their right sibling afterwards: a backward sweep after a forward sweep (3500 tensors after 3000 + 3000 steps; also with cache_size=0)", "missed", "retained-values walk at the end of every C07 sweep / machine run: floating-point tensors reachable from the object <= 3 cache_size + 16 (`retained_values_unbounded`)"),
    "C07-estimator_skips_warmup": ("running-average step estimator no longer accumulates during the 100-query warm-up (two cooperating sites): the 101st non-empty query alone sizes the tree", "no dt hint, a very short query exactly at position 101 (clipped last solver step)", "caught", ""),
    "C12-out_buffer_like_ts": ("outputs written into a buffer allocated with `ts.new_empty`: result in the dtype of the time tensor", "tensor ts of another dtype than y0", "caught", ""),
    "C12-two_point_uniform_steps": ("fixed steps with exactly two output times: step size becomes span / round(span / dt) (no sliver step)", "len(ts) == 2 and a horizon that is not a multiple of dt", "caught", ""),
    "C12-no_step_needed_current_state": ("early-out `if curr_t >= out_t: append(curr_y)` (>= for ==): later outputs inside an already taken step get the end-of-step state", "dt larger than the gaps: at least two outputs inside one step", "caught", ""),
    "C13-bm_shape_probe": ("`check_contract` queries `bm(ts[0], ts[-1])` once to verify the shape: the first chunk's probe splits a fresh BrownianInterval at the restart point", "non-dyadic BrownianInterval, chunked and one-shot runs each on a fresh same-entropy object", "caught - but at first for the wrong reason: the probe request was read as a step of the grid by the trace reader (`exception:ValueError@check_contract` from my own chunk times); with one shared object, which is how C13 drove real Brownian motion, the change is invisible", "span probes are not steps (`stubs.steps_of`); real-bm runs now also give the probe call, the one-shot reference and the chunked run each a fresh same-entropy object (`fresh_bm`, no crashes): `chunked_output_differs`"),
    "C13-full_step_dt": ("two sites: integrate records the nominal step size unless the step is the last of the call; Euler.step uses it as dt", "euler, restart point where (t + dt) - t != dt", "caught", ""),
    "C13-ts_list_default_dtype": ("list times converted through the default dtype (`torch.tensor(ts).to(y0)`)", "float64 state under the float32 default, times given as a list, a restart time not representable in float32", "caught", "(chunk times as a list were added to C13 in this round, before the change was seen)"),
    "C14-skip_halves_below_dt_min": ("the two half steps are skipped for trials shorter than dt_min (full-step value accepted with error 0)", "a final trial clipped to ts[-1] shorter than dt_min, or a run pinned at dt_min", "caught", ""),
    "C14-rel_tol_signed_max": ("`max(|y1|, |y2|)` simplified to `|max(y1, y2)|` in compute_error", "negative state components with an rtol-dominated tolerance", "caught", ""),
    "C14-max_consecutive_rejections": ("'safety net': after 10 consecutive rejections the trial is accepted (two sites)", "more than 10 rejections in a row before dt_min is reached (dt / dt_min ~ 1e7 or an adversarial error signal)", "caught", ""),
}


def verdicts():
    out = {}
    cur = None
    for f in sorted(glob.glob("/tmp/try_w6_*.log")):
        for line in open(f):
            m = re.match(r"=== (C\d\d-\w+)(.*)", line)
            if m:
                cur = m.group(1)
                out.setdefault(cur, {})
                continue
            if cur is None:
                continue
            if line.startswith("demo clean="):
                out[cur]["demo"] = line.strip()
            m = re.match(r"(C\d\d) rc=(\d+) ?(.*)", line)
            if m:
                out[cur].setdefault("checks", []).append({"check": m.group(1), "exit": int(m.group(2)), "first": m.group(3).strip()[:400]})
    return out


def main():
    vd = verdicts()
    suites = {}
    for f in glob.glob("/tmp/suite_w6_C*.txt"):
        prop = re.search(r"(C\d\d)", f).group(1)
        for line in open(f):
            k, _, v = line.strip().partition(" ")
            suites[f"{prop}-{k}"] = v
    for mid, (what, needs, first, strengthened) in T.items():
        prop, name = mid.split("-", 1)
        src = f"/tmp/w6_{prop}/_mutants/{name}"
        dst = os.path.join(VERIF, "seeded", mid)
        if not os.path.isdir(src):
            print("missing", src)
            continue
        os.makedirs(dst, exist_ok=True)
        for fn in ("demo.py", "notes.md", "patch.diff"):
            if os.path.exists(f"{src}/{fn}"):
                shutil.copy(f"{src}/{fn}", f"{dst}/{fn}")
        v = vd.get(mid, {})
        meta = {"id": mid, "wave": 6, "breaks_property": prop, "what_it_does": what, "needs_to_manifest": needs,
                "first_verdict": first, "strengthened_with": strengthened,
                "demo": v.get("demo"), "quick_tier_with_change": v.get("checks"),
                "pinned_suite_with_change": suites.get(mid),
                "what_was_run": "tools/try_seeded.sh (scratch worktree of /repo at HEAD, demo.py on the clean tree and with the change, "
                                "owning check's quick tier with VERIF_REPO=<worktree>; where two verdicts are listed the first is the "
                                "check as it stood, the last after the strengthening); pinned suite with the change applied "
                                "(tools/suite_seeded.sh: pytest -n 3 tests, PYTHONPATH=<worktree>); /repo itself never touched",
                "patch_base": "/repo HEAD 0681471 (seven fix: commits)", "recorded_at": time.strftime("%Y-%m-%d %H:%M:%S")}
        last = (meta["quick_tier_with_change"] or [{}])[-1]
        m = re.search(r"run_index=(\d+) class=(\S+)", last.get("first", ""))
        if m:
            # keep the minimised replay if the file still is the one of this change (same run index and class)
            for rp in glob.glob(os.path.join(VERIF, "replays", f"{last['check']}-0-*{m.group(1)}.json")):
                try:
                    if json.load(open(rp)).get("violation", {}).get("class") == m.group(2):
                        shutil.copy(rp, f"{dst}/replay-{last['check']}.json")
                        meta["replay"] = f"replay-{last['check']}.json"
                except Exception:  # noqa
                    pass
        with open(f"{dst}/meta.json", "w") as f:
            json.dump(meta, f, indent=1)
            f.write("\n")
        print(mid, first[:20], (v.get("checks") or [{}])[-1].get("exit"), (suites.get(mid) or "")[:30])


if __name__ == "__main__":
    main()
