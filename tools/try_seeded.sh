#!/bin/sh
# dev helper: first verdict for a sub-agent deliverable, in my own scratch worktree (never /repo).
# usage: tools/try_seeded.sh <deliverable dir> <Cxx> [more checks...]
d=$1; shift
wt=${WT:-/tmp/rb_wt}
git -C $wt checkout -q -- . && git -C $wt checkout -q --detach main
sed "s#/tmp/w[t0-9]*_C[01][0-9]#$wt#g" $d/demo.py > /tmp/try_demo_$$.py
(cd $wt && PYTHONPATH=$wt OMP_NUM_THREADS=1 timeout 900 /venv/bin/python /tmp/try_demo_$$.py >/dev/null 2>&1); a=$?
pf=$d/patch.diff; [ -f $d/patch.ported.diff ] && pf=$d/patch.ported.diff; git -C $wt apply $pf || { echo "PATCH DOES NOT APPLY"; exit 2; }
(cd $wt && PYTHONPATH=$wt OMP_NUM_THREADS=1 timeout 900 /venv/bin/python /tmp/try_demo_$$.py >/dev/null 2>&1); b=$?
echo "demo clean=$a patched=$b"
for p in "$@"; do
  out=$(cd /verif && VERIF_REPO=$wt VERIF_PROCS=${VERIF_PROCS:-10} ./check $p quick 2>&1); rc=$?
  echo "$p rc=$rc $(echo "$out" | grep -E "^(VIOLATION|HARNESS|violation found)" | head -2 | cut -c1-400)"
  echo "$out" | tail -1 | cut -c1-200
done
git -C $wt checkout -q -- .
