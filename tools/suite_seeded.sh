#!/bin/sh
# dev helper: pinned suite with each sub-agent deliverable of one worktree applied (in that worktree, never /repo).
# usage: tools/suite_seeded.sh <worktree> <out file>     (deliverables under <worktree>/_mutants/*)
wt=$1; out=$2
for d in $wt/_mutants/*/; do
  name=$(basename $d)
  git -C $wt checkout -q -- . ; git -C $wt apply $d/patch.diff || { echo "$name PATCH-DOES-NOT-APPLY" >> $out; continue; }
  res=$(cd $wt && OMP_NUM_THREADS=1 MKL_NUM_THREADS=1 PYTHONPATH=$wt timeout 3000 /venv/bin/python -m pytest -q -p no:cacheprovider -n 3 tests 2>&1 | tail -1)
  echo "$name $res" >> $out
  git -C $wt checkout -q -- .
done
