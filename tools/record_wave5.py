#!/venv/bin/python
"""Record the wave-5 seeded changes under /verif/seeded/<id>/ from the sub-agents' deliverables (/tmp/w5_<Cxx>/_mutants),
my own confirmation logs (/tmp/try_w5_*.log: demo on clean / patched tree + quick-tier verdict with VERIF_REPO=<scratch
worktree at /repo's HEAD + patch>; /tmp/suite_results.txt: pinned suite with the change applied). Run by hand, once."""
import glob
import json
import os
import re
import shutil
import time

VERIF = os.path.dirname(os.path.dirname(os.path.abspath(__file__)))

T = {
    # id: (what it does, what it needs to manifest, first verdict note, strengthening)
    "C03-retree_bottom_resplit": ("dependency-tree rebuild cuts a bottom-level piece with `_split_exact` even when it already has children (subtree discarded)", "no dt hint, > 100 queries so that the tree is refined while a piece of the right length already has user-made children; then a sub-interval of it is asked again", "caught", ""),
    "C03-dyadic_levy_once": ("dyadic mode: one Davie/Foster approximation drawn from the aggregated (W, H) instead of chaining the pieces by Chen's relation", "halfway_tree with tol > 0, Davie/Foster, shape (B, m), return_A, query over >= 2 pieces", "caught", ""),
    "C03-path_horizon_regrow": ("`BrownianPath` replaces its interval by a longer one when a query ends past t0+1 (found independently of C05-path_regrow)", "an out-of-range (clipped) query between related in-range queries", "caught", ""),
    "C04-time_dtype_snap": ("query times and t0/t1 cast to the dtype of the Brownian values", "float32 object, times not representable in float32 (large origin or tiny steps)", "caught", ""),
    "C04-tree_w1_offset": ("`BrownianTree` passes `W = w1` instead of `w1 - w0` to its interval", "w1 supplied together with a non-zero w0", "caught", ""),
    "C04-point_eval_origin": ("point evaluation `bm(t)` becomes the query [max(0, t0), t]", "negative time origin and the point-evaluation form", "caught", ""),
    "C05-refine_resplit_left": ("dependency-tree rebuild re-splits a left child that already has children", "no dt hint, one long query first, then >= 100 short steps, then an earlier step asked again", "caught", ""),
    "C05-dt_hint_step_fastpath": ("sequential-stepping fast path (only with a dt hint) carves the step off the right sibling without checking that it is still a leaf", "dt hint, a second forward pass over an already stepped region with another step size, then the first pass's intervals asked again", "caught", ""),
    "C05-last_levy_area_memo": ("one-slot memo of the last Levy area, stored for the last *piece* although it is the aggregate of a multi-piece query", "Davie/Foster, m > 1, a multi-piece query immediately followed by a query containing its last piece", "caught", ""),
    "C06-randn_memo_inplace_H": ("`_randn` memoised with lru_cache + top-level H scaled in place: a second object with the same entropy scales the cached tensor again", "H modes, two same-entropy objects built back to back in one process", "caught", ""),
    "C06-lazy_spacetime_levy": ("H only tracked after the first return_U / return_A call; before that a W-only bridge is used", "H modes, histories mixing plain W queries with return_U / return_A queries", "caught", ""),
    "C06-tree_point_chain": ("`BrownianTree` point evaluation continued from the last evaluated point", "BrownianTree, two histories containing the same point, one of which evaluated a smaller point right before; bitwise comparison", "caught", ""),
    "C07-count_empty_queries": ("empty queries feed the running-average step estimator and can trigger the tree rebuild with target piece length 0", "default object (no dt hint, tol 0), more than 100 empty queries before the first real one", "missed", "empty query repeated 100/101/130 times (explicit `rep`), half of them moved to the head of the history; directed case in C07"),
    "C07-loc_walk_up": ("`_loc` hands over to the parent with a plain recursive call instead of the trampolined climb", "a long chain of nested intervals followed by a non-adjacent query", "caught (late: run 648 of 700)", ""),
    "C07-lbyl_cache_lookup": ("cache looked up with `.get()` which the cache_size=0 mapping does not implement", "cache_size=0, any non-empty query", "caught - but at first for the wrong reason: the fault-injecting cache wrapper itself had no .get, so every cache size raised (a harness artefact that would have been a false alarm on a benign .get refactor)", "FaultyCache forwards every mapping method the real object has (and only those); the violation is now the genuine one, at cache_size=0 only; benign mutant b19"),
    "C12-interp_nominal_step": ("interpolation over [prev_t, prev_t + dt] (nominal step) instead of [prev_t, curr_t]", "horizon off the grid and an output strictly inside the clipped last step", "caught", ""),
    "C12-absorb_short_tail": ("a remainder shorter than 1e-3 dt is absorbed into the previous step", "ts[-1] just past a grid point", "caught", ""),
    "C12-terminal_shortcut": ("once the solver has reached ts[-1] every remaining output is the final state", "an intermediate output inside the last step", "caught", ""),
    "C13-balance_last_two_steps": ("fixed step: when a short remainder would be left, the last two steps of the *call* are made equal", "span not a multiple of dt and a restart at one particular grid point", "caught", ""),
    "C13-float64_time_accumulator": ("fixed-step grid time accumulated in a local float64 variable (lost at a restart)", "float32 times, non-dyadic dt, restart where the accumulator is not a float32 number", "caught", ""),
    "C13-isclose_final_snap": ("final clip also when `torch.isclose(next_t, ts[-1])` (default rtol 1e-5)", "time origin far from zero relative to dt (|t| * 1e-5 >= dt): the last two steps of every call merge", "missed", "12% of C13's runs with |t0| in {1000, 4096} and dt <= 0.01"),
    "C14-inplace_step_update": ("`prev_step_size *= factor` in the controller: in place for 0-dim tensors, aliasing the solver's (= the caller's) dt_min", "dt_min (or dt) passed as a 0-dim tensor and dt_min reached once", "caught", "(found with float arguments only through its side effect on the schedule; dt / dt_min / tolerances are now also handed over as 0-dim tensors and must come back unchanged)"),
    "C14-warm_start_last_step": ("the solver object remembers the length of its last accepted step as the next initial step", "one solver object integrating more than once: the adaptive backward pass of sdeint_adjoint with >= 3 output times and a short clipped final step", "caught only after the backward mode was added", "mode `backward` of C14 (sim/props/c14_backward.py): the schedule of the adaptive backward pass is judged"),
    "C14-clamp_only_on_reject": ("controller may shrink after an accepted step + clamp to dt_min only on rejection", "controller working near dt_min and a marginal accept", "caught", ""),
}


def verdicts():
    out = {}
    cur = None
    for f in sorted(glob.glob("/tmp/try_w5_*.log")) + ["/tmp/try_first.log"]:
        if not os.path.exists(f):
            continue
        for line in open(f):
            m = re.match(r"=== (C\d\d-\w+)", line)
            if m:
                cur = m.group(1)
                out.setdefault(cur, {})
                continue
            if cur is None:
                continue
            if line.startswith("demo clean="):
                out[cur]["demo"] = line.strip()
            m = re.match(r"(C\d\d) rc=(\d+) ?(.*)", line)
            if m:
                out[cur].setdefault("checks", []).append({"check": m.group(1), "exit": int(m.group(2)), "first": m.group(3).strip()[:400]})
    return out


def main():
    vd = verdicts()
    suites = {}
    if os.path.exists("/tmp/suite_results.txt"):
        for line in open("/tmp/suite_results.txt"):
            k, _, v = line.strip().partition(" ")
            suites[k] = v
    for mid, (what, needs, first, strengthened) in T.items():
        prop, name = mid.split("-", 1)
        src = f"/tmp/w5_{prop}/_mutants/{name}"
        dst = os.path.join(VERIF, "seeded", mid)
        if not os.path.isdir(src):
            print("missing", src)
            continue
        os.makedirs(dst, exist_ok=True)
        for fn in ("demo.py", "notes.md"):
            if os.path.exists(f"{src}/{fn}"):
                shutil.copy(f"{src}/{fn}", f"{dst}/{fn}")
        if os.path.exists(f"{src}/patch.ported.diff"):
            shutil.copy(f"{src}/patch.ported.diff", f"{dst}/patch.diff")
            shutil.copy(f"{src}/patch.diff", f"{dst}/patch.pre-D7-fix.diff")
        else:
            shutil.copy(f"{src}/patch.diff", f"{dst}/patch.diff")
        v = vd.get(mid, {})
        meta = {"id": mid, "wave": 5, "breaks_property": prop, "what_it_does": what, "needs_to_manifest": needs,
                "first_verdict": first, "strengthened_with": strengthened,
                "demo": v.get("demo"), "quick_tier_with_change": v.get("checks"),
                "pinned_suite_with_change": suites.get(mid),
                "what_was_run": "tools/try_seeded.sh (scratch worktree of /repo at HEAD, demo.py on the clean tree and with the change, "
                                "owning check's quick tier with VERIF_REPO=<worktree>); pinned suite with the change applied "
                                "(pytest -n 3 tests, PYTHONPATH=<worktree>); /repo itself never touched",
                "patch_base": "/repo HEAD 0681471 (seven fix: commits)", "recorded_at": time.strftime("%Y-%m-%d %H:%M:%S")}
        for rp in glob.glob(os.path.join(VERIF, "replays", f"{prop}-0-*.json")):
            pass
        with open(f"{dst}/meta.json", "w") as f:
            json.dump(meta, f, indent=1)
            f.write("\n")
        print(mid, first or "?", (v.get("checks") or [{}])[-1].get("exit"), suites.get(mid, "")[:30])


if __name__ == "__main__":
    main()
