#!/usr/bin/env python3
"""Regenerates /verif/MANIFEST.json from the table below (keeps it valid and current)."""
import json, os
HERE = os.path.dirname(os.path.dirname(os.path.abspath(__file__)))
TECH = "deterministic simulation with fault injection: seeded search over histories/schedules and fault sequences"
CLAIMED = {
 "C03": ("4 C03", "Seeded simulation of the Brownian objects as a stateful service: random query histories with injected cache misses/drops/blackouts, tiny caches and mid-history tree refinement; Chen relations among all recorded answers, Levy-area fold across stored pieces (tree model), and a single-copy path model over the final partition. Sampled histories with exact-to-rounding oracles: evidence, not proof.",
         "Trusts torch kernels, numpy SeedSequence, display_binary_tree as public API; tolerance 1e-10 rel (f64); times on the tolerance grid when tol>0.",
         TECH + "; reference path model + Chen-relation invariants over recorded histories"),
 "C05": ("4 C05", "Seeded simulation with fault injection: every answer ever returned is re-requested after arbitrary interleavings, evictions (injected and natural) and tree refinements and compared bit-for-bit with a history model; includes real sdeint_adjoint backward passes re-reading the forward noise.",
         "Trusts determinism of torch.Generator and SeedSequence; sampled histories.",
         TECH + "; history model (first answer per interval) with bit-equality"),
}
CLAIMED["C06"] = ("4 C06", "Seeded simulation of two replicas of one Brownian object: (A) same arguments and op stream under independent cache-fault plans, (B) dyadic mode under different histories then a common probe set, (C) different entropy, (D) fresh-process replica versus a replica built after a same-entropy decoy object, (T) two independent objects driven from two real threads under a seeded baton-passing scheduler (deterministic interleaving at line granularity) versus sequential replicas; all answers compared bit-for-bit. (X) the replica once more in a fresh interpreter under another hash salt.",
         "Trusts determinism of torch.Generator and SeedSequence; entropy=None constructions are out of scope; sampled histories.",
         TECH + "; replica agreement (bit-equality) between independently faulted copies")
CLAIMED["C07"] = ("4 C07", "Seeded simulation of long and adversarial query histories (random, solver-shaped sweeps forward/backward with ulp-long clipped last steps, real sdeint on default/Tree/Path Brownian motion) under a deterministic profile-hook monitor: no exception, Python call depth <= 150 per call, cache entries <= cache_size, call events per call within a budget proportional to the designed tree size (bounded liveness). Also counted: floating-point tensors the object keeps alive outside its cache (retained-values walk).",
         "Depth/work measured in Python call events; histories whose designed dependency-tree size exceeds 8192 are truncated (cost proportional to that size is by design); sampled histories.",
         TECH + "; safety + bounded-liveness monitors (stack depth, cache bound, step budget) on every service call")
CLAIMED["C04"] = ("4 C04", "Seeded simulation through the randomness seam: the object carries a label axis and every normal draw is answered with unit label vectors, so each returned value is its exact coefficient vector over independent N(0,1) sources; the Gram matrix of all answers of a faulted query history is compared with the exact covariance of Brownian-motion functionals (incl. bridge with supplied W/H, cross-element independence). Davie/Foster: the Levy draw is forced to 0 and to every basis tensor, recovering conditional mean and variance exactly. Exact oracle per run; coverage of histories is sampled.",
         "Assumes draws with different seeds are independent standard normals (torch generator, numpy SeedSequence trusted) and that W/H arithmetic is element-wise over leading axes; float64; 1e-9 relative with exact-rational confirmation.",
         TECH + "; exact covariance (Gram matrix) through an owned randomness seam vs a Brownian covariance reference model")
CLAIMED["C12"] = ("4 C12", "Trace checking of the real stepping loop against an executable loop model over seeded output-time schedules (on-grid, inside a step, several per step, 1 ulp either side of a grid point, gaps smaller/larger than dt; tensor or list): identical Brownian request trace for every schedule and equal to the model recurrence, grid outputs bit-identical to grid states, interior outputs equal to the linear interpolant, common times bit-identical, shape/dtype. No fault dimension of its own (the real-Brownian share runs with cache faults); claimed because the recording seam, stub peer and loop model decide it, not because it needs fault injection.",
         "StubBrownian (stateless closed form) in ~80% of runs, real BrownianInterval in ~20%; interpolation to 1e-12 rel (f64)/1e-5 (f32); schedules sampled.",
         TECH + "; trace refinement against a reference model of the fixed-step loop over sampled output schedules")
CLAIMED["C13"] = ("4 C13", "Seeded simulation of checkpoint/restart: one-shot integration vs 1-8 chunks cut at PRNG-chosen grid points carrying only the returned (state, extra state), with crashes injected at the k-th drift / diffusion / Brownian call of a chunk (possibly mid-step) followed by restart from the last checkpoint; bit-exact comparison of final state, extra state, shared outputs and the concatenated surviving request trace. All solvers and noise types; stub and real Brownian motion (cache faults on). Checkpoints optionally pass a serialisation round trip, attempts get fresh SDE objects, restart at every grid point, and real-Brownian runs optionally use a fresh same-entropy object per execution.",
         "Restart points on the step grid (property precondition); crash = exception from a peer; sampled cut/crash schedules.",
         TECH + "; crash/restart equivalence against a one-shot reference execution, bit-exact")
CLAIMED["C14"] = ("4 C14", "Seeded simulation of the adaptive controller under real and adversarial (scripted) error signals: invariants on the recorded trial schedule (contiguity, bounds, end exactly at ts[-1], dt_min, accept/reject rule in its weakest reading, shrinking on reject), bounded liveness via an analytic trial bound enforced by a deterministic call-event budget, and an independent value/decision oracle that re-executes the schedule with public non-adaptive single-step calls (recomputed RMS error norm, two-half-step values, interpolated outputs). The clause 'tightening tolerances reduces the true error' is not decided.",
         "Preconditions dt >= dt_min and dt_min resolvable in the working dtype; stiffness kept inside the stability region at dt_min (a diverging scheme confirmed by re-execution is not judged); no open known finding (D7 fixed by 0681471).",
         TECH + "; controller schedule invariants + bounded liveness + re-execution reference model under adversarial error signal")
NA = {}
def main():
    checks = []
    for pid, (ref, text, note, tech) in sorted(CLAIMED.items()):
        checks.append({
            "property_id": pid,
            "quick_cmd": f"./check {pid} quick",
            "thorough_cmd": f"./check {pid} thorough",
            "evidence_file": f"/verif/evidence/{pid}.json",
            "replay_cmd_template": f"./check {pid} --replay {{path}}",
            "engine": "sim",
            "level_claimed": {"category": "exploration", "text": text, "design_ref": f"DESIGN.md section {ref}"},
            "level_note": note,
            "technique": tech,
        })
    na = json.load(open(os.path.join(HERE, "tools", "not_applicable.json")))
    na = [x for x in na if x["property_id"] not in CLAIMED]
    man = {
        "version": 1,
        "setup_cmd": "/venv/bin/python -c \"import torch, numpy, trampoline; print('torch', torch.__version__)\"",
        "hooks": {
            "guard": "TORCHSDE_VERIF",
            "enable": "no hooks in /repo: every seam is reached through an interface argument (bm, sde callbacks), a module attribute looked up at call time (torch.randn, np.random.randint, adaptive_stepping.*) or a wrapper around the cache object found by attribute scan; the guard name is reserved and unused",
            "baseline_off_cmd": "cd /repo && /venv/bin/python -m pytest -ra -q -p no:cacheprovider --timeout=900 --continue-on-collection-errors",
            "source_commits": [],
            "add_only": True,
        },
        "engines": [{"name": "sim", "path": "/verif/sim", "serves_properties": sorted(CLAIMED),
                     "kind_free_text": "in-house deterministic simulator (Python): seeded named PRNG streams, explicit op+fault replay files, ddmin minimiser, process pool; no third-party framework"}],
        "checks": checks,
        "not_applicable": na,
        "notes": "All checks import torchsde from /repo's working tree at run time (asserted). Exit 0 held / 1 VIOLATION / 2 harness error. fix: commits in /repo are listed in known_findings.jsonl.",
    }
    with open(os.path.join(HERE, "MANIFEST.json"), "w") as f:
        json.dump(man, f, indent=1)
        f.write("\n")
if __name__ == "__main__":
    main()
