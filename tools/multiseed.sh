#!/bin/sh
# dev helper: run every quick check under several seeds; print one line per (property, seed)
cd "$(dirname "$0")/.."
for s in ${SEEDS:-1 2 3}; do
  for p in ${PROPS:-C03 C04 C05 C06 C07 C12 C13 C14}; do
    out=$(VERIF_SEED=$s ./check $p quick 2>&1); rc=$?
    echo "seed=$s $p rc=$rc $(echo "$out" | grep -E "^(VIOLATION|HARNESS|violation found)" | head -2 | cut -c1-300)"
  done
done
