#!/bin/sh
# soak: quick tier of every check under many seeds; prints one line per (seed, property); any rc != 0 is worth a look.
# usage: tools/soak.sh <first_seed> <n_seeds> [props...]
cd "$(dirname "$0")/.."
first=${1:-100}; n=${2:-20}; shift 2 2>/dev/null
props=${*:-C03 C04 C05 C06 C07 C12 C13 C14}
i=0
while [ $i -lt $n ]; do
  s=$((first + i))
  for p in $props; do
    out=$(VERIF_SEED=$s ./check $p quick 2>&1); rc=$?
    echo "seed=$s $p rc=$rc $(echo "$out" | grep -E "^(VIOLATION|HARNESS|violation found)" | head -2 | cut -c1-300)"
    if [ $rc -ne 0 ]; then echo "$out" | tail -20; fi
  done
  i=$((i + 1))
done
