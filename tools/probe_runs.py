"""Dev helper: run a range of run indices sequentially, print slow / violating ones.  usage: probe_runs.py C07 0 100 [tier] [min_s]"""
import sys, time, os
sys.path.insert(0, os.path.dirname(os.path.dirname(os.path.abspath(__file__))))
from sim.core import import_torchsde, run_seed
import_torchsde()
import torch; torch.set_num_threads(1)
from sim import runner
prop = sys.argv[1]; a = int(sys.argv[2]); b = int(sys.argv[3]); tier = sys.argv[4] if len(sys.argv) > 4 else 'quick'
min_s = float(sys.argv[5]) if len(sys.argv) > 5 else 2.0
seed = int(os.environ.get("VERIF_SEED", "0"))
mod = runner.load(prop)
tot = 0
for idx in range(a, b):
    case = mod.gen_case(run_seed(seed, prop, idx), tier, idx)
    t = time.time()
    r = runner._safe_run(mod, case)
    dt = time.time() - t; tot += dt
    if dt > min_s or r.get('violation') or r.get('harness_error'):
        brief = {k: v for k, v in case.items() if k not in ('ops', 'ops2', 'probes')}
        print(idx, "%.1fs" % dt, r.get('violation'), (r.get('harness_error') or '')[-600:], brief, flush=True)
print("total %.1fs" % tot)
