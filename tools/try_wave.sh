#!/bin/sh
# dev helper: first verdicts for all deliverables of one sub-agent worktree.  usage: tools/try_wave.sh <Cxx> <worktree> [more checks]
p=$1; wt=$2; shift 2
for d in $wt/_mutants/*/; do
  echo "=== $p-$(basename $d)"
  /verif/tools/try_seeded.sh ${d%/} $p "$@"
done
