"""Shared primitives of the deterministic simulator: seed derivation, named PRNG streams,
event log with rolling digest, exact float <-> JSON, replay-file IO.

Nothing in this module reads a clock or the global RNGs. Everything a run decides is a pure
function of (VERIF_SEED, property id, run index) and the code under test.
"""
import hashlib
import json
import math
import os
import random
import struct
import sys

REPO = os.environ.get("VERIF_REPO", "/repo")
VERIF = os.path.dirname(os.path.dirname(os.path.abspath(__file__)))


def import_torchsde():
    """Import torchsde from $VERIF_REPO (default /repo) and assert that it really came from there."""
    if sys.path[0] != REPO:
        sys.path.insert(0, REPO)
    import torchsde  # noqa
    here = os.path.realpath(torchsde.__file__)
    want = os.path.realpath(REPO)
    if not here.startswith(want + os.sep):
        raise RuntimeError(f"HARNESS: torchsde imported from {here}, expected under {want}")
    return torchsde


# ----------------------------------------------------------------------------------------
# seeds and streams


def derive(*parts) -> int:
    """Stable 63-bit integer from arbitrary (repr-able) parts. Independent of PYTHONHASHSEED."""
    h = hashlib.sha256(repr(parts).encode()).digest()
    return int.from_bytes(h[:8], "big") >> 1


class Streams:
    """Named, independent PRNG sub-streams of one run seed. Drawing from one stream never
    perturbs another, which is what keeps minimisation and replay meaningful."""

    def __init__(self, seed: int):
        self.seed = seed
        self._s = {}

    def get(self, name: str) -> random.Random:
        r = self._s.get(name)
        if r is None:
            r = self._s[name] = random.Random(derive(self.seed, name))
        return r


def run_seed(verif_seed: int, prop: str, idx: int) -> int:
    return derive("run", int(verif_seed), prop, int(idx))


# ----------------------------------------------------------------------------------------
# exact floats in JSON


def fx(x) -> str:
    """float -> exact hex string."""
    return float(x).hex()


def xf(s) -> float:
    """hex string (or number) -> float."""
    if isinstance(s, str):
        return float.fromhex(s)
    return float(s)


def ulp_next(x: float, n: int = 1) -> float:
    for _ in range(abs(n)):
        x = math.nextafter(x, math.inf if n > 0 else -math.inf)
    return x


# ----------------------------------------------------------------------------------------
# digests and the event log


def tdig(t) -> str:
    """Digest of a tensor's exact bits (+ dtype and shape). None -> 'None'."""
    if t is None:
        return "None"
    import torch
    if isinstance(t, (tuple, list)):
        return "(" + ",".join(tdig(x) for x in t) + ")"
    if not torch.is_tensor(t):
        return "py:" + repr(t)
    a = t.detach().contiguous().cpu().numpy()
    h = hashlib.sha256()
    h.update(str(a.dtype).encode())
    h.update(repr(tuple(a.shape)).encode())
    h.update(a.tobytes())
    return h.hexdigest()[:16]


class EventLog:
    """Numbered records (seq, kind, payload). Keeps a rolling sha256; keeps the records
    themselves only when `keep` (replay --verbose, determinism self-test diffs)."""

    def __init__(self, keep: bool = False):
        self._h = hashlib.sha256()
        self.seq = 0
        self.keep = keep
        self.records = []

    def add(self, kind: str, *payload):
        rec = (self.seq, kind) + tuple(payload)
        s = json.dumps(rec, sort_keys=True, default=_json_default)
        self._h.update(s.encode())
        self._h.update(b"\n")
        if self.keep:
            self.records.append(s)
        self.seq += 1

    def digest(self) -> str:
        return self._h.hexdigest()[:24]


def _json_default(o):
    if isinstance(o, float):
        return o.hex()
    if isinstance(o, (set, frozenset)):
        return sorted(o)
    return repr(o)


def canon_hash(obj) -> str:
    return hashlib.sha256(json.dumps(obj, sort_keys=True, default=_json_default).encode()).hexdigest()[:20]


# ----------------------------------------------------------------------------------------
# violations and harness errors


class Violation(Exception):
    """Raised by an oracle. `vclass` is the stable class used by the minimiser ("same violation
    class recurs") and by known-finding signatures; `detail` is free-form JSON-able."""

    def __init__(self, vclass: str, detail=None, at_op=None):
        super().__init__(vclass)
        self.vclass = vclass
        self.detail = detail
        self.at_op = at_op

    def to_json(self):
        return {"class": self.vclass, "detail": self.detail, "at_op": self.at_op}


class HarnessError(Exception):
    """Something is wrong with the harness itself (seam not engaged, nondeterminism...).
    Never reported as a violation of a property: exit status 2."""


class PassThrough(Exception):
    """Harness control-flow exceptions that must cross the code under test untouched (never a verdict)."""


class SkipCase(PassThrough):
    """The generated case is degenerate after rounding to the working dtype (e.g. two output times coincide):
    skipped and counted, never judged."""


class SimCrash(Exception):
    """Injected crash of a peer (C13)."""


class SimBudgetExceeded(Exception):
    """Deterministic step budget of one service call exhausted (bounded-liveness monitor)."""


# ----------------------------------------------------------------------------------------
# replay files


def write_replay(path, case, violation, digest):
    doc = dict(case)
    doc["violation"] = violation
    doc["digest"] = digest
    os.makedirs(os.path.dirname(path), exist_ok=True)
    tmp = path + ".tmp"
    with open(tmp, "w") as f:
        json.dump(doc, f, indent=1, sort_keys=True)
        f.write("\n")
    os.replace(tmp, path)


def read_replay(path):
    with open(path) as f:
        return json.load(f)


def pack_f64(x: float) -> bytes:
    return struct.pack("<d", x)
