"""C12 — outputs lie on one dt-grid trajectory: interpolation and output-time invariance.

Trace checking of the real stepping loop against a reference loop model over sampled *output-time schedules*
(no fault dimension of its own; the real-Brownian configuration runs with cache faults on):
 V0   ts = [t0, T]           its Brownian request trace defines the grid g_0..g_n as the solver computed it
 Vall ts = all grid times    gives the grid states G_k
 V1.. PRNG-chosen schedules relative to the grid: on-grid, strictly inside a step, several in one step, 1 ulp either
      side of a grid point, gaps smaller / larger than dt; ts as tensor and as list
Oracle: (a) every variant issues the bit-identical request trace; the trace equals the LoopModel recurrence
next = min(cur + dt, T) in the solver's dtype; (b) ys[0] is y0; (c) an output at a grid time is G_k bit-for-bit, an
output strictly inside a step is the linear interpolant of its neighbours; (d) a time common to two variants returns
identical bits; (e) shape (len(ts), B, d) and dtype of y0.
"""
import copy
import math

import torch

from .. import bmachine as bm
from .. import seams, stubs
from ..core import SkipCase, EventLog, Streams, Violation, fx, xf, tdig

PROP = "C12"
RUNS = {"quick": 1500, "thorough": 60000}
DEADLINE = {"quick": 200, "thorough": 3000}
OPS_KEYS = ("variants",)
RULE = ("case = (solver x noise type x SDE spec, state dtype, time dtype, t0, dt, number of steps, on/off-grid horizon, "
        "stub / real / default (bm=None) Brownian motion, adaptive-only options, list of output-time schedules described "
        "relative to the step grid, each through sdeint or sdeint_adjoint) from seeded named PRNG "
        "streams; distinct = distinct hash of the case; non-trivial = at least one schedule with an output strictly "
        "inside a step AND one with an on-grid or 1-ulp-off-grid output were checked on a grid of >= 2 steps")
ASSUMPTIONS = ["StubBrownian (stateless closed-form path) stands in for the Brownian service in most runs so that a "
               "Brownian defect cannot show up here; a share of runs uses the real BrownianInterval with cache faults",
               "interpolation compared to 1e-12 relative (float64) / 1e-5 (float32); grid outputs bit-for-bit",
               "schedules are sampled, not enumerated; no fault dimension (stated in DESIGN.md)"]
REAL_VS_STUB = {"real": ["sdeint, check_contract, BaseSDESolver.integrate, all solver step functions, interp",
                         "BrownianInterval (real-bm runs)"],
                "stub": ["StubBrownian (stub-bm runs)", "RecordingBrownian proxy", "SDE zoo drift/diffusion"]}
PROBES = ("default_bm", "euler_reference_steps", "variants_run", "via_sdeint_adjoint", "ts_dtype_differs", "on_grid_outputs", "on_grid_interior", "inside_outputs", "several_outputs_in_one_step", "ulp_before_grid",
          "ulp_after_grid", "dt_larger_than_gaps", "ts_as_list", "final_step_clipped", "horizon_on_grid", "f32", "real_bm",
          "stub_bm", "common_time_pairs")
STATE_MEASURE = "distinct (solver, noise type, grid length, output-schedule pattern) tuples"


def gen_case(seed, tier, idx):
    st = Streams(seed)
    rs = st.get("config")
    solver = stubs.gen_solver(rs)
    spec = stubs.gen_sde_spec(rs, solver)
    dtype = "float32" if rs.random() < 0.25 else "float64"
    t0 = rs.choice([0.0, 0.0, 0.3, -1.0, 2.5, 100.0])
    dt = rs.choice([0.1, 0.05, 0.01, 0.25, 0.037, 1 / 3, 1e-3])
    n = rs.choice([1, 2, 3, 5, 8, 13, 25, 40])
    frac = rs.choice([0.0, 0.0, 0.5, 0.9, 0.1, 1e-9])
    T = t0 + (n - frac) * dt if n - frac > 0 else t0 + dt
    rv = st.get("variants")
    variants = []
    for _ in range(rv.choice([2, 3, 4])):
        items = []
        for _ in range(rv.choice([1, 2, 4, 8])):
            kind = bm._pick(rv, [("on", 3), ("inside", 4), ("ulp", 2), ("same_step", 2)])
            k = rv.randrange(0, n + 1)
            if kind == "on":
                items.append({"kind": "on", "k": k})
            elif kind == "inside":
                items.append({"kind": "inside", "k": k, "frac": rv.choice([0.5, 0.25, 0.9, 1e-6, 1 - 1e-6, rv.random()])})
            elif kind == "ulp":
                items.append({"kind": "ulp", "k": k, "d": rv.choice([-1, 1, -2, 2])})
            else:
                for f in sorted(rv.random() for _ in range(rv.choice([2, 3]))):
                    items.append({"kind": "inside", "k": k, "frac": f})
        variants.append({"items": items, "as_list": rv.random() < 0.35,
                         "entry": "sdeint_adjoint" if rv.random() < 0.25 else "sdeint"})
    if rs.random() < 0.15:
        # dt larger than every gap: many outputs, one or two steps
        dt = (T - t0) * rs.choice([0.7, 1.0, 3.0])
    return {"solver": solver, "sde": spec, "dtype": dtype, "t0": fx(t0), "dt": fx(dt), "T": fx(T), "n_nominal": n,
            "ts_dtype": rs.choice(["same", "same", "same", "float64", "float32"]),
            # options that only matter for adaptive stepping, passed to a fixed-step solve (they must not change it)
            "adaptive_only": rs.choice([None, None, {"dt_min": 0.2}, {"dt_min": 10 * dt, "rtol": 1e-2}, {"atol": 1e-9, "rtol": 0.0}]),
            "bm": bm._pick(rs, [("stub", 7), ("real", 2), ("default", 1)]), "bm_seed": rs.randrange(1 << 30), "variants": variants,
            "fault_rate": bm.gen_fault_rate(st.get("faults")), "fault_seed": rs.randrange(1 << 30)}


# ----------------------------------------------------------------------------------------
# reference model of the stepping loop (fixed step)


def loop_model_grid(t0, T, dt, tdt, cap=100000):
    """next = min(cur + dt, T), in the solver's dtype, with the solver's own scalar arithmetic."""
    ts = torch.tensor([t0, T], dtype=tdt)
    cur = ts[0]
    grid = [float(cur)]
    while cur < ts[-1] and len(grid) < cap:
        cur = min(cur + dt, ts[-1])
        grid.append(float(cur))
    return grid


def _nextafter(x, d, tdt):
    t = torch.tensor(x, dtype=tdt)
    inf = torch.tensor(math.inf if d > 0 else -math.inf, dtype=tdt)
    for _ in range(abs(d)):
        t = torch.nextafter(t, inf)
    return float(t)


def resolve(items, grid, tdt):
    """Output times of a schedule, relative to the grid the solver actually produced."""
    t0, T = grid[0], grid[-1]
    n = len(grid) - 1
    out = []
    for it in items:
        k = min(it["k"], n)
        if it["kind"] == "on":
            t = grid[k]
        elif it["kind"] == "ulp":
            t = _nextafter(grid[k], it["d"], tdt)
        else:
            k = min(k, n - 1)
            t = grid[k] + it["frac"] * (grid[k + 1] - grid[k])
            t = float(torch.tensor(t, dtype=tdt))
        if t0 < t < T:
            out.append(t)
    return [t0] + sorted(set(out)) + [T]


class Runner:
    def __init__(self, case, log):
        self.case = case
        self.log = log
        self.tdt = stubs.DT[case["dtype"]]
        # dtype of the time tensor: the state's dtype, or another one (ts given as a tensor of a different dtype)
        self.tts = self.tdt if case.get("ts_dtype", "same") == "same" else stubs.DT[case["ts_dtype"]]
        self.spec = case["sde"]
        self.y0 = stubs.make_y0(self.spec, case["dtype"])
        self.fired = {"miss": 0, "drop": 0, "blackout": 0}
        self.n_variant = 0

    def make_bm(self):
        import torchsde
        case = self.case
        B, m = self.spec["batch"], self.spec["m"]
        levy = case["solver"]["levy"]
        if case["bm"] == "stub":
            inner = stubs.make_stub_brownian((B, m), self.tdt, case["bm_seed"], levy)
            plan = None
        else:
            t0, T = xf(case["t0"]), xf(case["T"])
            ts = torch.tensor([t0, T], dtype=self.tts)
            inner = torchsde.BrownianInterval(t0=float(ts[0]), t1=float(ts[-1]), size=(B, m), dtype=self.tdt,
                                              entropy=case["bm_seed"], levy_area_approximation=levy,
                                              cache_size=45 if case["fault_seed"] % 2 else 2)
            plan = seams.FaultPlan()
            seams.install_faulty_cache(inner, plan)
        return stubs.make_recorder(inner), plan

    def run(self, times, as_list, tag, entry="sdeint"):
        import random
        import torchsde
        case = self.case
        sde = stubs.make_sde(self.spec, case["dtype"])
        if case["bm"] == "default":
            # bm=None: the library builds its own BrownianInterval; its entropy comes from np.random.randint, which the
            # entropy seam serves from the case's seed, so every variant gets the same path. No request trace here.
            self.n_variant += 1
            ts = list(times) if (as_list and self.tts == self.tdt) else torch.tensor(times, dtype=self.tts)
            kw = dict(case.get("adaptive_only") or {})
            if case["solver"]["options"]:
                kw["options"] = dict(case["solver"]["options"])
            try:
                with torch.no_grad(), seams.entropy_seam(random.Random(case["bm_seed"])):
                    fn = torchsde.sdeint_adjoint if entry == "sdeint_adjoint" else torchsde.sdeint
                    ys = fn(sde, self.y0, ts, bm=None, method=case["solver"]["method"], dt=xf(case["dt"]), **kw)
            except Exception as e:  # noqa
                raise Violation(f"exception:{type(e).__name__}@{bm._where(e)}", {"variant": tag, "msg": str(e)[:200]}, tag)
            self.log.add("variant", tag, [fx(t) for t in times], as_list, tdig(ys), "default-bm")
            return ys, None
        rec, plan = self.make_bm()
        if plan is not None and case["fault_rate"] > 0:
            # one blackout/miss plan per variant, drawn from the case's explicit fault seed
            r = random.Random(case["fault_seed"] * 1000 + self.n_variant)
            plan.begin_op([{"kind": "miss", "at": r.randrange(0, 400)} for _ in range(int(40 * case["fault_rate"]) + 1)] +
                          [{"kind": "drop", "at": r.randrange(0, 400)} for _ in range(int(40 * case["fault_rate"]) + 1)])
        self.n_variant += 1
        # a list is converted to the state's dtype by the library, so the list form is only comparable when the time
        # dtype is the state's dtype
        ts = list(times) if (as_list and self.tts == self.tdt) else torch.tensor(times, dtype=self.tts)
        kw = dict(case.get("adaptive_only") or {})
        if case["solver"]["options"]:
            kw["options"] = dict(case["solver"]["options"])
        try:
            with torch.no_grad():
                fn = torchsde.sdeint_adjoint if entry == "sdeint_adjoint" else torchsde.sdeint
                ys = fn(sde, self.y0, ts, bm=rec, method=case["solver"]["method"], dt=xf(case["dt"]), **kw)
        except Exception as e:  # noqa
            raise Violation(f"exception:{type(e).__name__}@{bm._where(e)}", {"variant": tag, "msg": str(e)[:200]}, tag)
        if plan is not None:
            for k in self.fired:
                self.fired[k] += plan.fired[k]
        self.log.add("variant", tag, [fx(t) for t in times], as_list, tdig(ys), len(rec.trace))
        return ys, [(r[0], r[1]) for r in stubs.steps_of(rec.trace)]


def run_case(case, keep_log=False):
    log = EventLog(keep_log)
    probes = {k: 0 for k in PROBES}
    violation = None
    states = []
    n_steps = 0
    sde_time = 0.0
    R = Runner(case, log)
    tdt = R.tdt
    tts = R.tts
    probes["ts_dtype_differs"] = int(tts != tdt)
    f32 = case["dtype"] == "float32"
    # the interpolation weights are computed in the dtype of the time tensor, the states in the dtype of y0
    rtol = 1e-5 if (f32 or tts == torch.float32) else 1e-12
    probes["f32"] = int(f32)
    probes["real_bm" if case["bm"] == "real" else "stub_bm"] = int(case["bm"] != "default")
    try:
        t0, T, dt = xf(case["t0"]), xf(case["T"]), xf(case["dt"])
        tsv = torch.tensor([t0, T], dtype=tts)
        t0, T = float(tsv[0]), float(tsv[1])
        if not t0 < T:
            raise SkipCase()
        ys0, trace0 = R.run([t0, T], False, "V0")
        B, d = R.spec["batch"], R.spec["d"]
        # the trace must be the LoopModel grid
        model = loop_model_grid(t0, T, dt, tts)
        no_trace = trace0 is None
        if no_trace:
            trace0 = list(zip(model[:-1], model[1:]))  # default Brownian motion: no proxy, the model grid is used
            probes["default_bm"] = 1
        grid = [trace0[0][0]] + [tb for (_, tb) in trace0] if trace0 else [t0]
        for i, (ta, tb) in enumerate(trace0):
            if ta != grid[i]:
                raise Violation("trace_not_contiguous", {"step": i, "ta": fx(ta), "want": fx(grid[i])}, "V0")
        if grid != model:
            j = next((i for i, (a, b) in enumerate(zip(grid, model)) if a != b), min(len(grid), len(model)))
            raise Violation("grid_differs_from_model", {"first_diff": j, "len_trace": len(grid), "len_model": len(model),
                                                         "got": fx(grid[j]) if j < len(grid) else None,
                                                         "want": fx(model[j]) if j < len(model) else None}, "V0")
        n = len(grid) - 1
        n_steps = n
        sde_time = T - t0
        if n >= 1 and (grid[-1] - grid[-2]) < 0.999 * dt:
            probes["final_step_clipped"] = 1
        if n >= 1 and abs((grid[-1] - grid[-2]) - dt) <= 1e-6 * dt:
            probes["horizon_on_grid"] = 1
        if tuple(ys0.shape) != (2, B, d) or ys0.dtype != tdt:
            raise Violation("shape", {"variant": "V0", "shape": list(ys0.shape), "dtype": str(ys0.dtype)}, "V0")
        if not torch.equal(ys0[0], R.y0):
            raise Violation("ys0_not_y0", {"variant": "V0"}, "V0")
        # Vall: grid states
        ysall, trace_all = R.run(grid, False, "Vall")
        if not no_trace and trace_all != trace0:
            raise Violation("trace_depends_on_ts", {"variant": "Vall", "len": [len(trace_all), len(trace0)]}, "Vall")
        if tuple(ysall.shape) != (len(grid), B, d):
            raise Violation("shape", {"variant": "Vall", "shape": list(ysall.shape)}, "Vall")
        G = ysall
        if not torch.equal(G[-1], ys0[-1]):
            raise Violation("common_time_differs", {"variants": ["V0", "Vall"], "t": fx(T)}, "Vall")
        if case["solver"]["method"] == "euler" and case["bm"] == "stub":
            # independent model of one step (Euler-Maruyama written out by hand on the zoo SDE and the stateless stub
            # path): G_{k+1} = G_k + f(g_k, G_k) h + g(g_k, G_k) . W(g_k, g_{k+1}),  h = g_{k+1} - g_k - the clipped last step
            # included. Catches a grid state recorded at the wrong time, which interpolation alone cannot see.
            sde_r = stubs.make_sde(R.spec, case["dtype"])
            stub = stubs.make_stub_brownian((B, R.spec["m"]), R.tdt, case["bm_seed"], case["solver"]["levy"])
            nt = R.spec["noise_type"]
            etol = 1e-4 if (f32 or tts == torch.float32) else 1e-10
            with torch.no_grad():
                for k in range(n):
                    ta_, tb_ = torch.tensor(grid[k], dtype=tts), torch.tensor(grid[k + 1], dtype=tts)
                    yk = G[k]
                    dW = stub(grid[k], grid[k + 1])
                    gk = sde_r.g(ta_, yk)
                    gp = gk * dW if nt == "diagonal" else torch.bmm(gk, dW.unsqueeze(-1)).squeeze(-1)
                    ref = yk + sde_r.f(ta_, yk) * (tb_ - ta_) + gp
                    probes["euler_reference_steps"] += 1
                    sc = max(bm.maxabs(ref), bm.maxabs(yk), 1.0)
                    if bm.maxabs(ref.double() - G[k + 1].double()) > etol * sc:
                        raise Violation("grid_state_not_euler_step", {"k": k, "of": n, "err": bm.maxabs(ref.double() - G[k + 1].double())}, "Vall")
        seen = {t0: G[0], T: G[-1]}
        gidx = {g: i for i, g in enumerate(grid)}
        pattern = []
        for vi, var in enumerate(case["variants"]):
            tag = f"V{vi + 1}"
            times = resolve(var["items"], grid, tts)
            ys, trace = R.run(times, var["as_list"], tag, var.get("entry", "sdeint"))
            probes["via_sdeint_adjoint"] += int(var.get("entry") == "sdeint_adjoint")
            probes["variants_run"] += 1
            probes["ts_as_list"] += int(var["as_list"])
            if not no_trace and trace != trace0:
                k = next((i for i, (a, b) in enumerate(zip(trace, trace0)) if a != b), min(len(trace), len(trace0)))
                raise Violation("trace_depends_on_ts", {"variant": tag, "first_diff": k, "len": [len(trace), len(trace0)]}, vi)
            if tuple(ys.shape) != (len(times), B, d) or ys.dtype != tdt:
                raise Violation("shape", {"variant": tag, "shape": list(ys.shape), "dtype": str(ys.dtype)}, vi)
            if not torch.equal(ys[0], R.y0):
                raise Violation("ys0_not_y0", {"variant": tag}, vi)
            gaps = [b - a for a, b in zip(times[:-1], times[1:])]
            if gaps and dt > max(gaps):
                probes["dt_larger_than_gaps"] += 1
            per_step = {}
            pat = []
            for j, t in enumerate(times):
                y = ys[j]
                if t in gidx:
                    probes["on_grid_outputs"] += 1
                    if 0 < gidx[t] < n:
                        probes["on_grid_interior"] += 1
                    pat.append("g")
                    if not torch.equal(y, G[gidx[t]]):
                        raise Violation("grid_output_not_grid_state", {"variant": tag, "t": fx(t), "k": gidx[t],
                                                                       "err": bm.maxabs(y - G[gidx[t]])}, vi)
                else:
                    # strictly inside step k: g_k < t < g_{k+1}
                    k = max(i for i, g in enumerate(grid) if g < t)
                    per_step[k] = per_step.get(k, 0) + 1
                    ga, gb = grid[k], grid[k + 1]
                    w = (t - ga) / (gb - ga)
                    ref = G[k].double() + w * (G[k + 1].double() - G[k].double())
                    sc = max(bm.maxabs(G[k]), bm.maxabs(G[k + 1]), 1.0)
                    probes["inside_outputs"] += 1
                    pat.append("i")
                    if t == _nextafter(ga, 1, tts) or t == _nextafter(ga, 2, tts):
                        probes["ulp_after_grid"] += 1
                    if t == _nextafter(gb, -1, tts) or t == _nextafter(gb, -2, tts):
                        probes["ulp_before_grid"] += 1
                    if bm.maxabs(y.double() - ref) > rtol * sc:
                        raise Violation("interpolation", {"variant": tag, "t": fx(t), "k": k, "w": w,
                                                          "err": bm.maxabs(y.double() - ref)}, vi)
                old = seen.get(t)
                if old is not None:
                    probes["common_time_pairs"] += 1
                    if not torch.equal(old, y):
                        raise Violation("common_time_differs", {"variant": tag, "t": fx(t)}, vi)
                else:
                    seen[t] = y
            if any(c >= 2 for c in per_step.values()):
                probes["several_outputs_in_one_step"] += 1
            pattern.append("".join(pat))
        states = [f"{case['solver']['method']}/{case['solver']['sde_type']}/{case['sde']['noise_type']}/{n}/" + "|".join(pattern)]
    except SkipCase:
        probes["skipped_degenerate_case"] = 1
    except Violation as v:
        violation = v.to_json()
    stats = {"faults": R.fired, "probes": probes,
             "counters": {"ops": R.n_variant, "queries": 0, "sde_time": sde_time * R.n_variant, "solver_steps": n_steps * R.n_variant},
             "states": states, "n_steps": n_steps}
    out = {"violation": violation, "digest": log.digest(), "stats": stats}
    if keep_log:
        out["log"] = log.records
    return out


def nontrivial(stats):
    p = stats.get("probes", {})
    return bool(stats.get("n_steps", 0) >= 2 and p.get("inside_outputs") and
                (p.get("on_grid_interior") or p.get("ulp_after_grid") or p.get("ulp_before_grid")))


def sample_of(case, stats):
    c = dict(case)
    c["probes"] = stats.get("probes")
    return c


def simplify(case):
    for vi, var in enumerate(case["variants"]):
        if len(var["items"]) > 1:
            for j in range(len(var["items"])):
                c = copy.deepcopy(case)
                del c["variants"][vi]["items"][j]
                yield c
        if var["as_list"]:
            c = copy.deepcopy(case)
            c["variants"][vi]["as_list"] = False
            yield c
        if var.get("entry") == "sdeint_adjoint":
            c = copy.deepcopy(case)
            c["variants"][vi]["entry"] = "sdeint"
            yield c
    for key, val in (("bm", "stub"), ("dtype", "float64"), ("fault_rate", 0.0), ("ts_dtype", "same"), ("adaptive_only", None)):
        if case.get(key) != val:
            c = copy.deepcopy(case)
            c[key] = val
            yield c
    sp = case["sde"]
    for key, val in (("batch", 1), ("kind", "linear")):
        if sp[key] != val:
            c = copy.deepcopy(case)
            c["sde"][key] = val
            yield c
