"""C13 — chunked (checkpoint-restart) integration equals one-shot integration.

Reference: one-shot sdeint(..., extra=True) over [t0, T], fixed step, Brownian request trace recorded (it defines the
step grid). Simulated executions: the same integration as 1..8 chunks cut at PRNG-chosen grid points, carrying only
the returned (ys[-1], extra state) across — with injected crashes: a peer (drift, diffusion or the Brownian proxy)
raises SimCrash at its j-th call inside a chunk (possibly mid-step, between the stages of a Runge-Kutta step); the
partial call is abandoned and the chunk re-run from its checkpoint with the same SDE and Brownian objects.
Oracle (bit-exact): final state, every extra-state tensor, every output time shared with the one-shot; the
concatenated request trace of the surviving attempts equals the one-shot trace.
"""
import copy
import pickle

import torch

from .. import bmachine as bm
from .. import seams, stubs
from ..core import EventLog, SimCrash, Streams, Violation, fx, tdig, xf

PROP = "C13"
RUNS = {"quick": 1500, "thorough": 60000}
DEADLINE = {"quick": 200, "thorough": 3000}
OPS_KEYS = ("cuts", "crashes", "outputs")
RULE = ("case = (solver x noise type x SDE spec, state dtype, time dtype, t0, dt (or omitted), steps, horizon, logqp, "
        "adaptive-only options, stub or real Brownian motion, cut indices on the grid, crash list (chunk, peer, call "
        "index), intermediate output positions) from seeded named "
        "PRNG streams; distinct = distinct hash of the case; non-trivial = at least 2 chunks on a grid of >= 3 steps AND "
        "(a crash fired OR >= 3 chunks OR the solver carries extra state)")
ASSUMPTIONS = ["restart points lie on the step grid (as the property requires); chunk ts are built from the grid floats "
               "recorded in the one-shot run",
               "StubBrownian is stateless; real-bm runs reuse the one-shot's BrownianInterval object (every request is a "
               "repeat) with cache faults on",
               "crash = exception raised by a peer; only the returned (state, extra) survive a restart",
               "sampled cut/crash schedules, not enumerated"]
REAL_VS_STUB = {"real": ["sdeint, check_contract, BaseSDESolver.integrate, all solver step functions",
                         "BrownianInterval (real-bm runs)"],
                "stub": ["StubBrownian (stub-bm runs)", "RecordingBrownian proxy with crash points",
                         "SDE zoo drift/diffusion with crash points"]}
PROBES = ("ts_dtype_differs", "logqp_runs", "logqp_increments_compared", "chunks_total", "chunks_ge_4", "crash_fired_f", "crash_fired_g", "crash_fired_bm", "crash_not_reached",
          "extra_state_carried", "negative_control_differs", "negative_control_same", "intermediate_outputs",
          "real_bm", "stub_bm", "f32", "final_step_clipped", "durable_pickle", "fresh_sde_per_attempt", "via_sdeint_adjoint",
          "restart_at_every_grid_point", "chunk_ts_as_list", "sde_form_plain", "sde_form_fused", "sde_form_renamed", "real_bm_fresh_object_per_execution")
STATE_MEASURE = "distinct (solver, noise type, steps, cut pattern, crash pattern) tuples"


def gen_case(seed, tier, idx):
    st = Streams(seed)
    rs = st.get("config")
    solver = stubs.gen_solver(rs)
    if rs.random() < 0.25:
        solver.update(method="reversible_heun", sde_type="stratonovich", levy="none", options=None,
                      noise_type=rs.choice(list(stubs.NOISE)))
    spec = stubs.gen_sde_spec(rs, solver)
    dtype = "float32" if rs.random() < 0.25 else "float64"
    t0 = rs.choice([0.0, 0.0, 0.3, -1.0, 2.5])
    dt = rs.choice([0.1, 0.05, 0.01, 0.25, 0.037, 1 / 3])
    if rs.random() < 0.12:
        # a time origin far from zero relative to the step (|t| * 1e-5 >= dt): relative closeness tests on times
        # (isclose with its default rtol) then span whole steps  (added after C13-isclose_final_snap, wave 5)
        t0 = rs.choice([1000.0, -1000.0, 4096.0])
        dt = rs.choice([0.01, 0.005, 0.0078125])
    n = rs.choice([2, 3, 5, 8, 13, 25, 40])
    frac = rs.choice([0.0, 0.0, 0.5, 0.9, 1e-9])
    omit_dt = rs.random() < 0.05
    if omit_dt:
        dt = 1e-3  # the documented default step; the call omits dt
        n = rs.choice([5, 13, 25])
    T = t0 + (n - frac) * dt
    rcut = st.get("cuts")
    k = rcut.choice([1, 2, 2, 3, 4, 6, 8])
    cuts = sorted(set(rcut.randrange(1, n + 1) for _ in range(k - 1)))
    rcr = st.get("crashes")
    crashes = []
    for _ in range(rcr.choice([0, 0, 1, 1, 2, 3])):
        crashes.append({"chunk": rcr.randrange(0, len(cuts) + 1), "peer": rcr.choice(["f", "g", "bm", "bm"]),
                        "at": rcr.choice([0, 1, 2, 3, 5, 8, 13, 21])})
    ro = st.get("outputs")
    outputs = [{"k": ro.randrange(0, n), "frac": ro.choice([0.0, 0.5, 0.25, ro.random()])}
               for _ in range(ro.choice([0, 1, 2, 4]))]
    # round 3: what "only returned state survives" means is varied too. `durable`: the checkpoint goes through a
    # serialisation round trip (a restart in another process: no tensor identity, no aliasing survives); `fresh_sde`:
    # every attempt gets a newly built SDE object (state parked on the user's object does not survive either);
    # `every`: restart at every grid point; `entry`: all calls through sdeint_adjoint (forward pass);
    # `list_ts`: chunk output times handed over as a Python list.
    r3 = st.get("round3")
    every = r3.random() < 0.08
    if every:
        cuts = list(range(1, n))
    fresh_bm = r3.random() < 0.35  # (only used by real-bm runs)
    extra3 = {"fresh_bm": fresh_bm, "durable": "pickle" if r3.random() < 0.35 else "alias", "fresh_sde": r3.random() < 0.35,
              "entry": "sdeint_adjoint" if r3.random() < 0.15 else "sdeint", "list_ts": r3.random() < 0.15}
    return {"solver": solver, "sde": spec, "dtype": dtype, "t0": fx(t0), "dt": fx(dt), "T": fx(T), **extra3,
            "bm": "real" if rs.random() < 0.25 else "stub", "bm_seed": rs.randrange(1 << 30),
            "ts_dtype": rs.choice(["same", "same", "same", "float64", "float32"]),
            "adaptive_only": rs.choice([None, None, None, {"dt_min": 0.2}, {"dt_min": 10 * dt, "rtol": 1e-2}]),
            # a Brownian peer of another dtype is only accepted by the element-wise (diagonal) code paths
            "logqp": rs.random() < 0.12, "omit_dt": omit_dt,
            "bm_dtype": "same",  # (a Brownian peer of another dtype than the state is not a supported input: most code paths raise)
            "cuts": cuts, "crashes": crashes, "outputs": outputs,
            "cache_size": rs.choice([45, 2, 0]), "fault_rate": bm.gen_fault_rate(st.get("faults")),
            "fault_seed": rs.randrange(1 << 30)}


def run_case(case, keep_log=False):
    import random
    import torchsde
    log = EventLog(keep_log)
    probes = {k: 0 for k in PROBES}
    violation = None
    states = []
    tdt = stubs.DT[case["dtype"]]
    tts = tdt if case.get("ts_dtype", "same") == "same" else stubs.DT[case["ts_dtype"]]  # dtype of the time tensor
    spec = case["sde"]
    solver = case["solver"]
    B, m, d = spec["batch"], spec["m"], spec["d"]
    logqp = bool(case.get("logqp"))
    if logqp and spec["noise_type"] == "diagonal":
        m = d + 1  # the log-ratio channel is appended to the state; diagonal noise needs one Brownian channel per state channel
    bdt = tdt if case.get("bm_dtype", "same") == "same" else stubs.DT[case["bm_dtype"]]  # dtype of the Brownian peer
    y0 = stubs.make_y0(spec, case["dtype"])
    dt = xf(case["dt"])
    kw = dict(case.get("adaptive_only") or {})
    if solver["options"]:
        kw["options"] = dict(solver["options"])
    probes["f32"] = int(case["dtype"] == "float32")
    probes["ts_dtype_differs"] = int(tts != tdt)
    probes["logqp_runs"] = int(logqp)
    probes["bm_dtype_differs"] = int(bdt != tdt)
    fired = {"miss": 0, "drop": 0, "blackout": 0}
    n_steps = 0
    n_attempts = 0
    try:
        tsv = torch.tensor([xf(case["t0"]), xf(case["T"])], dtype=tts)
        t0, T = float(tsv[0]), float(tsv[1])
        # the Brownian peer (shared by the one-shot run and all chunks)
        plans = []

        def new_inner():
            if case["bm"] == "stub":
                return stubs.make_stub_brownian((B, m), bdt, case["bm_seed"], solver["levy"])
            inner_ = torchsde.BrownianInterval(t0=t0, t1=T, size=(B, m), dtype=bdt, entropy=case["bm_seed"],
                                               levy_area_approximation=solver["levy"], cache_size=case["cache_size"])
            plan_ = seams.FaultPlan()
            seams.install_faulty_cache(inner_, plan_)
            if case["fault_rate"] > 0:
                r = random.Random(case["fault_seed"] + len(plans))
                k = int(60 * case["fault_rate"]) + 1
                plan_.begin_op([{"kind": "miss", "at": r.randrange(0, 2000)} for _ in range(k)] +
                               [{"kind": "drop", "at": r.randrange(0, 2000)} for _ in range(k)])
            plans.append(plan_)
            return inner_

        # Real-bm runs either reuse ONE object for the probe call, the one-shot reference and all chunks (every request
        # after the first call is a repeat), or (`fresh_bm`, round 3, added after C13-bm_shape_probe) give each of the
        # three executions its own newly built object with the same entropy and options: one-shot and chunked runs
        # issue the same request sequence, so by seeded reproducibility they must see the same path. No crashes are
        # injected in that mode (an aborted attempt legitimately adds requests).
        fresh_bm = case["bm"] == "real" and bool(case.get("fresh_bm"))
        inner = new_inner()
        probes["stub_bm" if case["bm"] == "stub" else "real_bm"] = 1
        probes["real_bm_fresh_object_per_execution"] = int(fresh_bm)
        plan = plans[0] if plans else None

        lrs = {}

        def call(sde, rec, ts, y, extra_state, tag):
            try:
                with torch.no_grad():
                    dtkw = {} if case.get("omit_dt") else {"dt": dt}
                    fn = torchsde.sdeint_adjoint if case.get("entry") == "sdeint_adjoint" else torchsde.sdeint
                    out = fn(sde, y, ts, bm=rec, method=solver["method"], extra=True,
                             extra_solver_state=extra_state, logqp=logqp, names=stubs.names_of(sde), **dtkw, **kw)
                    if logqp:
                        ys_, lr_, ex_ = out
                        lrs[tag] = (ts, lr_)
                        return ys_, ex_
                    return out
            except SimCrash:
                raise
            except Exception as e:  # noqa
                raise Violation(f"exception:{type(e).__name__}@{bm._where(e)}", {"where": tag, "msg": str(e)[:200]}, tag)

        # --- pass 1: discover the grid with ts = [t0, T]
        sde = stubs.make_sde(spec, case["dtype"], allow_renamed=True)
        rec = stubs.make_recorder(inner)
        ys_a, extra_a = call(sde, rec, tsv, y0, None, "probe")
        trace_a = [(r[0], r[1]) for r in stubs.steps_of(rec.trace)]
        grid = [trace_a[0][0]] + [tb for (_, tb) in trace_a]
        n = n_steps = len(grid) - 1
        if n >= 1 and (grid[-1] - grid[-2]) < 0.999 * dt:
            probes["final_step_clipped"] = 1
        # intermediate output times (relative to the grid)
        outs = set()
        for o in case["outputs"]:
            k = min(o["k"], n - 1)
            t = float(torch.tensor(grid[k] + o["frac"] * (grid[k + 1] - grid[k]), dtype=tts))
            if t0 < t < T:
                outs.add(t)
        outs = sorted(outs)
        probes["intermediate_outputs"] = len(outs)
        # --- one-shot reference with the intermediate outputs and the restart points as output times
        cuts = sorted(set(min(c, n) for c in case["cuts"] if 0 < min(c, n) < n))
        sde = stubs.make_sde(spec, case["dtype"], allow_renamed=True)
        if fresh_bm:
            inner = new_inner()
        rec = stubs.make_recorder(inner)
        ts_ref = torch.tensor(sorted(set([t0] + outs + [grid[c] for c in cuts] + [T])), dtype=tts)
        ys_ref, extra_ref = call(sde, rec, ts_ref, y0, None, "oneshot")
        trace_ref = [(r[0], r[1]) for r in stubs.steps_of(rec.trace)]
        if trace_ref != trace_a:
            raise Violation("trace_depends_on_ts", {"len": [len(trace_ref), len(trace_a)]}, "oneshot")
        if not torch.equal(ys_a[-1], ys_ref[-1]):
            raise Violation("second_call_differs_from_first", {"err": bm.maxabs(ys_a[-1] - ys_ref[-1]),
                                                                "note": "same arguments (same options dict, SDE and Brownian objects); only the intermediate output times differ"}, "oneshot")
        ref_at = {float(t): ys_ref[i] for i, t in enumerate(ts_ref)}
        log.add("oneshot", tdig(ys_ref), tdig(extra_ref), len(trace_ref))
        # --- chunked execution with crashes
        bounds = [0] + cuts + [n]
        chunks = list(zip(bounds[:-1], bounds[1:]))
        if fresh_bm:
            inner = new_inner()
        probes["chunks_total"] = len(chunks)
        probes["chunks_ge_4"] = int(len(chunks) >= 4)
        sde = stubs.make_sde(spec, case["dtype"], allow_renamed=True)
        y = y0
        extra_state = None
        probes["sde_form_" + spec.get("form", "plain")] = 1
        probes["durable_pickle"] = int(case.get("durable") == "pickle")
        probes["fresh_sde_per_attempt"] = int(bool(case.get("fresh_sde")))
        probes["via_sdeint_adjoint"] = int(case.get("entry") == "sdeint_adjoint")
        probes["restart_at_every_grid_point"] = int(len(chunks) == n and n >= 3)
        surviving = []
        crash_pat = []
        for ci, (a, b) in enumerate(chunks):
            ga, gb = grid[a], grid[b]
            inner_outs = [t for t in outs if ga < t < gb]
            ts_c = torch.tensor([ga] + inner_outs + [gb], dtype=tts)
            ts_arg = [float(t) for t in ts_c] if (case.get("list_ts") and tts == tdt) else ts_c
            probes["chunk_ts_as_list"] += int(ts_arg is not ts_c)
            pending = [] if fresh_bm else [c for c in case["crashes"] if c["chunk"] == ci]
            while True:
                rec = stubs.make_recorder(inner)
                if case.get("fresh_sde"):
                    sde = stubs.make_sde(spec, case["dtype"], allow_renamed=True)  # nothing parked on the user's object survives
                crash = pending.pop(0) if pending else None
                if crash is not None:
                    if crash["peer"] == "f":
                        sde.crash_f = sde.n_f + crash["at"]
                    elif crash["peer"] == "g":
                        sde.crash_g = sde.n_g + crash["at"]
                    else:
                        rec.crash_at = crash["at"]
                n_attempts += 1
                try:
                    ys_c, extra_c = call(sde, rec, ts_arg, y, extra_state, f"chunk{ci}")
                except SimCrash:
                    probes["crash_fired_" + crash["peer"]] += 1
                    crash_pat.append(f"{ci}{crash['peer']}")
                    log.add("crash", ci, crash["peer"], crash["at"], len(rec.trace))
                    sde.crash_f = sde.crash_g = None
                    continue  # restart the chunk from its checkpoint (y, extra_state)
                if crash is not None:
                    probes["crash_not_reached"] += 1
                    sde.crash_f = sde.crash_g = None
                break
            surviving.extend((r[0], r[1]) for r in stubs.steps_of(rec.trace))
            log.add("chunk", ci, a, b, tdig(ys_c), tdig(extra_c))
            for i, t in enumerate(ts_c):
                t = float(t)
                if i == 0:
                    continue
                want = ref_at.get(t)
                if want is not None and not torch.equal(ys_c[i], want):
                    raise Violation("chunked_output_differs", {"chunk": ci, "t": fx(t), "is_chunk_end": i == len(ts_c) - 1,
                                                               "err": bm.maxabs(ys_c[i] - want)}, ci)
            if logqp:
                ts_r, lr_r = lrs["oneshot"]
                idx_r = {float(t): i for i, t in enumerate(ts_r)}
                _, lr_c = lrs[f"chunk{ci}"]
                for i in range(len(ts_c) - 1):
                    j = idx_r.get(float(ts_c[i]))
                    if j is None or j + 1 >= len(ts_r) or float(ts_r[j + 1]) != float(ts_c[i + 1]):
                        continue
                    probes["logqp_increments_compared"] += 1
                    a_, b_ = lr_c[i].double(), lr_r[j].double()
                    tol_ = (1e-4 if (case["dtype"] == "float32" or bdt == torch.float32 or tts == torch.float32) else 1e-9)
                    # the one-shot increment is a difference of cumulative values: its rounding error scales with
                    # the cumulative log-ratio up to that time, not with the increment
                    cum = float(lr_r[:j + 1].double().abs().sum(0).max())
                    if bm.maxabs(a_ - b_) > tol_ * max(bm.maxabs(b_), cum, 1e-3):
                        raise Violation("chunked_logqp_differs", {"chunk": ci, "interval": [fx(float(ts_c[i])), fx(float(ts_c[i + 1]))],
                                                                  "err": bm.maxabs(a_ - b_)}, ci)
            y = ys_c[-1]
            if len(extra_c) > 0:
                probes["extra_state_carried"] = 1
            extra_state = extra_c
            if case.get("durable") == "pickle":
                # the checkpoint as a restarted process would see it: bytes written, bytes read
                y, extra_state = pickle.loads(pickle.dumps((y, tuple(extra_state))))
        if not torch.equal(y, ys_ref[-1]):
            raise Violation("final_state_differs", {"err": bm.maxabs(y - ys_ref[-1]), "chunks": len(chunks)}, "final")
        if logqp:
            # with logqp the appended log-ratio channel restarts from zero in every call while the carried extra
            # state keeps its own copy of it: the extra states legitimately differ in that channel. The state
            # trajectory (bit-exact) and the log-ratio increments (to rounding) were compared above.
            extra_state = extra_ref = ()
        if len(extra_state) != len(extra_ref):
            raise Violation("extra_state_differs", {"len": [len(extra_state), len(extra_ref)]}, "final")
        for i, (e1, e2) in enumerate(zip(extra_state, extra_ref)):
            if not torch.equal(e1, e2):
                raise Violation("extra_state_differs", {"index": i, "err": bm.maxabs(e1 - e2)}, "final")
        if surviving != trace_ref:
            k = next((i for i, (p, q) in enumerate(zip(surviving, trace_ref)) if p != q), min(len(surviving), len(trace_ref)))
            raise Violation("chunked_trace_differs", {"first_diff": k, "len": [len(surviving), len(trace_ref)]}, "final")
        # negative control (reported, never alarmed): reversible Heun restarted WITHOUT its extra state should differ
        if solver["method"] == "reversible_heun" and len(chunks) >= 2:
            sde2 = stubs.make_sde(spec, case["dtype"], allow_renamed=True)
            y2 = y0
            for (a, b) in chunks:
                ys2, _ = call(sde2, stubs.make_recorder(inner), torch.tensor([grid[a], grid[b]], dtype=tts), y2, None, "neg")
                y2 = ys2[-1]
            probes["negative_control_same" if torch.equal(y2, ys_ref[-1]) else "negative_control_differs"] = 1
        states = [f"{solver['method']}/{solver['sde_type']}/{spec['noise_type']}/{n}/{bounds}/{crash_pat}"]
        for pl in plans:
            for kf, vf in pl.fired.items():
                fired[kf] = fired.get(kf, 0) + vf
    except Violation as v:
        violation = v.to_json()
    crash_fired = probes["crash_fired_f"] + probes["crash_fired_g"] + probes["crash_fired_bm"]
    stats = {"faults": dict(fired, crash_f=probes["crash_fired_f"], crash_g=probes["crash_fired_g"],
                            crash_bm=probes["crash_fired_bm"], restart=max(probes["chunks_total"] - 1, 0)),
             "probes": probes,
             "counters": {"ops": n_attempts, "queries": 0, "solver_steps": n_steps * 3,
                          "sde_time": (xf(case["T"]) - xf(case["t0"])) * 3},
             "states": states, "n_steps": n_steps, "crash_fired": crash_fired}
    out = {"violation": violation, "digest": log.digest(), "stats": stats}
    if keep_log:
        out["log"] = log.records
    return out


def nontrivial(stats):
    p = stats.get("probes", {})
    return bool(p.get("chunks_total", 0) >= 2 and stats.get("n_steps", 0) >= 3 and
                (stats.get("crash_fired") or p.get("chunks_total", 0) >= 3 or p.get("extra_state_carried")))


def sample_of(case, stats):
    c = dict(case)
    c["probes"] = stats.get("probes")
    return c


def simplify(case):
    for i, c in enumerate(case["crashes"]):
        if c["at"] > 0:
            x = copy.deepcopy(case)
            x["crashes"][i]["at"] = c["at"] // 2
            yield x
    for key, val in (("bm", "stub"), ("dtype", "float64"), ("fault_rate", 0.0), ("cache_size", 45), ("ts_dtype", "same"), ("logqp", False), ("entry", "sdeint"), ("fresh_bm", False), ("durable", "alias"), ("fresh_sde", False), ("list_ts", False), ("bm_dtype", "same"), ("adaptive_only", None)):
        if case.get(key) != val:
            c = copy.deepcopy(case)
            c[key] = val
            yield c
    sp = case["sde"]
    for key, val in (("batch", 1), ("kind", "linear"), ("form", "plain")):
        if sp[key] != val:
            c = copy.deepcopy(case)
            c["sde"][key] = val
            yield c
