"""C05, mode 'adjoint': real sdeint_adjoint runs. The backward pass re-reads the Brownian object through
ReverseBrownian; every request (forward, backward, and PRNG-chosen unrelated requests issued in between) goes
through a RecordingBrownian proxy and is checked against the HistoryModel: the same interval always returns the
same bits, under cache faults and tiny caches."""
import random

import torch

from .. import bmachine as bm
from .. import seams, stubs
from ..core import EventLog, SkipCase, Violation, fx, tdig, xf

FWD = [
    ("euler", "ito", stubs.NOISE, "none"), ("milstein", "ito", ("diagonal", "additive", "scalar"), "none"),
    ("srk", "ito", ("diagonal", "additive", "scalar"), "space-time"),
    ("midpoint", "stratonovich", stubs.NOISE, "none"), ("heun", "stratonovich", stubs.NOISE, "none"),
    ("euler_heun", "stratonovich", stubs.NOISE, "none"), ("milstein", "stratonovich", ("diagonal", "additive", "scalar"), "none"),
    ("reversible_heun", "stratonovich", stubs.NOISE, "none"), ("reversible_heun", "stratonovich", stubs.NOISE, "none"),
    ("log_ode", "stratonovich", stubs.NOISE, "foster"),
]


def gen_case(st, tier):
    rs = st.get("adjoint")
    method, sde_type, noises, levy = rs.choice(FWD)
    solver = {"method": method, "sde_type": sde_type, "noise_type": rs.choice(list(noises)), "levy": levy, "options": None}
    spec = stubs.gen_sde_spec(rs, solver)
    spec["kind"] = rs.choice(["linear", "trig", "tanh"])
    dt = rs.choice([0.125, 0.0625, 0.03125, 0.1, 0.05])
    n = rs.choice([4, 8, 16, 24])
    t0 = rs.choice([0.0, 0.0, 0.5, -1.0])
    n_out = rs.choice([2, 3, 4])
    ks = sorted(set([0, n] + [rs.randrange(1, n) for _ in range(n_out - 2)]))
    ts = [t0 + k * dt for k in ks]
    if rs.random() < 0.2:
        ts[-1] = ts[-1] - 0.37 * dt  # horizon off the grid
    extra = []
    for _ in range(rs.choice([0, 3, 10, 40])):
        a, b = sorted([t0 + (ts[-1] - t0) * rs.random(), t0 + (ts[-1] - t0) * rs.random()])
        if a < b:
            extra.append([fx(a), fx(b)])
    return {"mode": "adjoint", "solver": solver, "sde": spec, "dtype": rs.choice(["float64", "float64", "float32"]),
            "ts": [fx(t) for t in ts], "dt": fx(dt), "cache_size": rs.choice([45, 45, 3, 1, 0, None]),
            "bm_seed": rs.randrange(1 << 30), "fault_rate": bm.gen_fault_rate(st.get("faults")),
            "fault_seed": rs.randrange(1 << 30), "ops": extra, "adaptive": rs.random() < 0.15}


def run_case(case, keep_log=False):
    import torchsde
    from .c05 import PROBES, HistoryModel
    log = EventLog(keep_log)
    probes = {k: 0 for k in PROBES}
    violation = None
    tdt = stubs.DT[case["dtype"]]
    spec, solver = case["sde"], case["solver"]
    B, m = spec["batch"], spec["m"]
    fired = {"miss": 0, "drop": 0, "blackout": 0}
    n_req = 0
    sde_time = 0.0
    try:
        ts = torch.tensor([xf(t) for t in case["ts"]], dtype=tdt)
        if not bool((ts[1:] > ts[:-1]).all()):
            raise SkipCase()
        inner = torchsde.BrownianInterval(t0=float(ts[0]), t1=float(ts[-1]), size=(B, m), dtype=tdt,
                                          entropy=case["bm_seed"], levy_area_approximation=solver["levy"],
                                          cache_size=case["cache_size"])
        plan = seams.FaultPlan()
        cache, _ = seams.install_faulty_cache(inner, plan)
        if case["fault_rate"] > 0:
            r = random.Random(case["fault_seed"])
            k = int(200 * case["fault_rate"]) + 1
            plan.begin_op([{"kind": "miss", "at": r.randrange(0, 4000)} for _ in range(k)] +
                          [{"kind": "drop", "at": r.randrange(0, 4000)} for _ in range(k)])
        rec = stubs.make_recorder(inner)
        rec.keep_values = True
        sde = stubs.make_sde(spec, case["dtype"])
        y0 = stubs.make_y0(spec, case["dtype"]).requires_grad_(True)
        kw = {}
        if case.get("adaptive") and solver["method"] != "reversible_heun":
            kw.update(adaptive=True, rtol=1e-2, atol=1e-2, dt_min=xf(case["dt"]) / 8)
        try:
            ys = torchsde.sdeint_adjoint(sde, y0, ts, bm=rec, method=solver["method"], dt=xf(case["dt"]), **kw)
            n_fwd = len(rec.trace)
            # unrelated requests between the forward and the backward pass (evictions, tree growth)
            for a, b in case["ops"]:
                rec(xf(a), xf(b), return_U=solver["levy"] != "none", return_A=solver["levy"] in ("davie", "foster"))
            n_mid = len(rec.trace)
            w = torch.linspace(1.0, 2.0, ys.numel(), dtype=tdt).reshape(ys.shape)
            (ys * w).sum().backward()
        except Violation:
            raise
        except Exception as e:  # noqa
            raise Violation(f"exception:{type(e).__name__}@{bm._where(e)}", {"msg": str(e)[:200]}, "adjoint")
        hist = HistoryModel()
        fwd_keys = set()
        for i, (req, val) in enumerate(zip(rec.trace, rec.values)):
            ta, tb, U, A = req
            vals = val if isinstance(val, tuple) else (val,)
            names = ["W"] + (["U"] if U else []) + (["A"] if A else [])
            key = (ta, tb)
            rep = False
            for nm, v in zip(names, vals):
                rep = hist.check(key, nm, v, i) or rep
            if i < n_fwd:
                fwd_keys.add(key)
            elif i >= n_mid:
                if key in fwd_keys:
                    probes["adjoint_backward_requery"] += 1
            if rep:
                probes["repeat_compared"] += 1
            sde_time += abs(tb - ta)
        n_req = len(rec.trace)
        log.add("adjoint", tdig(ys), tdig(y0.grad), n_fwd, n_mid, n_req)
        fired = dict(plan.fired)
        if fired["miss"] or fired["drop"]:
            probes["repeat_after_fault"] += probes["adjoint_backward_requery"]
    except SkipCase:
        probes["skipped_degenerate_case"] = 1
    except Violation as v:
        violation = v.to_json()
    cs = case["cache_size"]
    if cs is not None and cs <= 3:
        probes["tiny_cache"] = 1
    probes["reverse_wrapper"] = 1
    stats = {"faults": fired, "probes": probes,
             "counters": {"ops": n_req, "queries": n_req, "sde_time": sde_time}, "states": []}
    out = {"violation": violation, "digest": log.digest(), "stats": stats}
    if keep_log:
        out["log"] = log.records
    return out
