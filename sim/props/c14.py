"""C14 — adaptive stepping terminates, tiles the interval and honours tolerances (last clause excluded).

The stepping loop is a controller whose schedule is decided at run time by the error signal. Two configurations:
 real : compute_error / update_step_size wrapped (record only); SDE zoo incl. stiff members
 adv  : compute_error replaced by a seeded adversary (explicit script of error values in the case)
Invariants on the recorded schedule (trials are request triples (a,b),(a,m),(m,b)):
 contiguity, a < b, t0 <= a, b <= T, last accepted b == T exactly; b - a >= dt_min unless b == T; after a reject the
 controller's step size strictly decreases and the retry is not longer; err <= 1 => accepted; err > 1 => rejected
 unless the new step size was clamped to dt_min; bounded liveness: number of trials <= Amax * (Rc + 1) with
 Amax = (T-t0)/dt_min + 2 accepted steps and Rc = ln(1.4 max(dt, T-t0)/dt_min)/ln(1/0.932) + 2 consecutive rejects
 (a deterministic call-event budget aborts the run beyond that).
Independent value/decision oracle: the schedule is re-executed with public NON-adaptive single-step sdeint calls
(full step, two half steps); the recomputed RMS error must equal the observed one (real), the returned ys must be the
two-half-step values on the accepted steps, linearly interpolated at the output times.
Not decided: 'tightening the tolerances reduces the true error' (statistical/asymptotic; no sound pointwise form).
"""
import copy
import math

import torch

from .. import bmachine as bm
from .. import seams, stubs
from ..core import SkipCase, EventLog, SimBudgetExceeded, Streams, Violation, fx, tdig, xf

PROP = "C14"
RUNS = {"quick": 1000, "thorough": 40000}
DEADLINE = {"quick": 220, "thorough": 3000}
OPS_KEYS = ("script",)
RULE = ("case = (solver x noise type x SDE spec incl. stiffness, dtype, ts with 2-6 output times, dt, dt_min, rtol, "
        "atol (incl. explicit zeros), entry point sdeint | sdeint_adjoint, stub or real Brownian motion, configuration real|adv with an explicit script of adversarial error "
        "values) from seeded named PRNG streams; distinct = distinct hash of the case; non-trivial = the schedule has "
        ">= 3 trials and at least one rejection or one step at dt_min, and the value model was evaluated")
ASSUMPTIONS = ["precondition dt >= dt_min, and dt_min resolvable at the time scale in the working dtype (>= 8 ulp)",
               "stiffness is kept within the stability region at dt_min (a diverging scheme ending in the library's own "
               "'Found nans' assertion is the user's parameter choice, not a controller defect)",
               "the accept rule is read in its weakest form: a failed trial may be accepted when the *new* step size is "
               "clamped to dt_min (what the code does)",
               "values compared to 1e-11 relative (float64) / 2e-5 (float32) against re-execution with public "
               "single-step calls; decisions compared exactly except |err-1| <= 1e-9",
               "schedules are sampled (real and adversarial error signals), not enumerated"]
REAL_VS_STUB = {"real": ["sdeint, BaseSDESolver.integrate (adaptive loop), adaptive_stepping.update_step_size, all solver "
                         "step functions, interp; compute_error (configuration real)", "BrownianInterval (real-bm runs)"],
                "stub": ["compute_error replaced by a scripted adversary (configuration adv)", "StubBrownian (stub-bm runs)",
                         "RecordingBrownian proxy", "SDE zoo drift/diffusion"]}
PROBES = ("trials", "accepted", "rejected", "rejection_at_dt_min", "ge5_consecutive_rejections", "step_at_dt_min",
          "accepted_with_err_gt_1_at_dt_min", "final_step_clipped", "final_step_le_4ulp", "value_model_trials",
          "err_recomputed", "outputs_checked", "conf_real", "conf_adv", "real_bm", "stub_bm", "f32", "stiff",
          "err_hugging_1", "via_sdeint_adjoint", "unsplittable_trial_modelled", "backward_mode", "backward_trials",
          "backward_segments", "backward_clipped_short_trial")  # (scheme_diverged is counted too; it is zero in most batches)
STATE_MEASURE = "distinct accept/reject words (one letter per trial) together with (solver, noise type)"


def gen_case(seed, tier, idx):
    st = Streams(seed)
    rs = st.get("config")
    solver = stubs.gen_solver(rs)
    stiff = rs.choice([1.0, 1.0, 10.0, 100.0, 1000.0])
    spec = stubs.gen_sde_spec(rs, solver, stiff_choices=(stiff,))
    if stiff > 1:
        spec["kind"] = rs.choice(["stiff", "linear"])
    dtype = "float32" if rs.random() < 0.2 else "float64"
    t0 = rs.choice([0.0, 0.0, 0.3, -1.0, 2.5])
    dt_min = rs.choice([1e-1, 3e-2, 1e-2, 3e-3, 1e-3, 1e-4, 1e-5, 1e-6])
    dt_min = min(dt_min, 0.2 / stiff)
    if solver["method"] == "reversible_heun":
        stiff = spec["stiff"] = 1.0  # no useful stability region on the negative real axis
    span = rs.choice([1.0, 0.5, 2.0, 0.1, 5.0])
    span = min(span, 300 * dt_min)
    if dtype == "float32":
        # dt_min must be resolvable at the time scale
        ulp = 1.2e-7 * max(abs(t0), abs(t0 + span), 1.0)
        if dt_min < 16 * ulp:
            dt_min = 16 * ulp
            span = min(span, 300 * dt_min)
    dt = rs.choice([dt_min, dt_min * 3, span / 10, span / 3, span, span * 2, 0.1])
    dt = max(dt, dt_min)
    n_out = rs.choice([2, 2, 3, 4, 6])
    ro = st.get("outputs")
    inner = sorted(t0 + span * ro.random() for _ in range(n_out - 2))
    ts = [t0] + inner + [t0 + span]
    conf = "adv" if rs.random() < 0.5 else "real"
    if conf == "adv":
        # an adversary that accepts everything defeats stability, which says nothing about the controller
        spec["stiff"] = 1.0
    script = []
    if conf == "adv":
        ra = st.get("adversary")
        for _ in range(ra.choice([3, 6, 12, 25])):
            kind = bm._pick(ra, [("loguni", 4), ("reject_run", 2), ("accept_run", 2), ("hug", 2), ("alt", 1)])
            if kind == "loguni":
                script.append(10 ** ra.uniform(-7, 9))
            elif kind == "reject_run":
                script.extend([10 ** ra.uniform(0.5, 9)] * ra.choice([2, 5, 9, 20]))
            elif kind == "accept_run":
                script.extend([10 ** ra.uniform(-7, -1)] * ra.choice([2, 5, 9]))
            elif kind == "hug":
                script.append(ra.choice([1.0, 1.0 + 1e-12, 1.0 - 1e-12, math.nextafter(1.0, 2.0), math.nextafter(1.0, 0.0)]))
            else:
                script.extend([5.0, 0.01] * ra.choice([2, 4]))
    rtol_ = rs.choice([1e-1, 1e-2, 1e-3, 1e-5, 1e-8])
    atol_ = rs.choice([1e-1, 1e-2, 1e-4, 1e-6, 1e-8])
    z = rs.random()
    if z < 0.06:
        rtol_ = 0.0  # an explicit zero is a valid tolerance (purely absolute / purely relative control)
    elif z < 0.12:
        atol_ = 0.0
    tail = 0
    if rs.random() < 0.06:
        tail = rs.choice([1, 2, 4])  # horizon a few ulp beyond the previous accepted boundary (see known finding D7)
    case = {"solver": solver, "sde": spec, "dtype": dtype, "ts": [fx(t) for t in ts], "dt": fx(dt), "dt_min": fx(dt_min),
            "rtol": fx(rtol_), "atol": fx(atol_),
            "conf": conf, "script": [fx(x) for x in script], "bm": "real" if rs.random() < 0.25 else "stub",
            "bm_seed": rs.randrange(1 << 30), "cache_size": rs.choice([45, 2]), "tail_ulps": tail,
            # 20%: through sdeint_adjoint (forward pass), with other tolerances for the backward solve
            "entry": "sdeint_adjoint" if rs.random() < 0.2 else "sdeint"}
    # 8%: dt / dt_min / tolerances handed over as 0-dim tensors (the documented Scalar type); the caller's tensors must
    # come back unchanged and the schedule must obey the same rules
    case["scalars_as_tensors"] = rs.random() < 0.08
    if rs.random() < 0.10:
        # 10%: the adaptive *backward* pass of sdeint_adjoint (adjoint_adaptive=True), see c14_backward.py
        from . import c14_backward
        case = c14_backward.gen_case(st, case)
    return case


# ----------------------------------------------------------------------------------------


class Diverged(Exception):
    pass


class Online(BaseException):
    """Carries a violation found by the online monitor out of sdeint (BaseException: the loop must not swallow it)."""

    def __init__(self, v):
        self.v = v


class Recorder:
    """Wraps / replaces the controller's error signal and records the controller's own step-size decisions."""

    def __init__(self, conf, script):
        from torchsde._core import adaptive_stepping
        self.mod = adaptive_stepping
        self.real_ce = adaptive_stepping.compute_error
        self.real_us = adaptive_stepping.update_step_size
        self.conf = conf
        self.script = script
        self.errs = []
        self.steps = []  # (prev_step_size, new_step_size)
        self.k = 0

    def compute_error(self, y11, y12, rtol, atol, eps=1e-7):
        if self.conf == "adv":
            e = self.script[self.k % len(self.script)] if self.script else 0.5
            self.k += 1
        else:
            e = self.real_ce(y11, y12, rtol, atol, eps)
        self.errs.append(e)
        return e

    def update_step_size(self, error_estimate, prev_step_size, *a, **kw):
        out = self.real_us(error_estimate, prev_step_size, *a, **kw)
        self.steps.append((float(prev_step_size), float(out[0])))
        return out

    def __enter__(self):
        self.mod.compute_error = self.compute_error
        self.mod.update_step_size = self.update_step_size
        return self

    def __exit__(self, *exc):
        self.mod.compute_error = self.real_ce
        self.mod.update_step_size = self.real_us
        return False


def _ulp(x, tdt):
    t = torch.tensor(abs(x), dtype=tdt)
    return float(torch.nextafter(t, torch.tensor(math.inf, dtype=tdt)) - t)


def rms_error(y_full, y_half, rtol, atol, eps=1e-7):
    """The mixed rtol/atol RMS norm of the property statement, written independently of the library."""
    tol = (rtol * torch.maximum(y_full.abs(), y_half.abs()) + atol).clamp_min(eps)
    r = (y_full - y_half) / tol
    return float(torch.sqrt((r ** 2).sum() / r.numel()).clamp_min(eps))


def run_case(case, keep_log=False):
    import torchsde
    if case.get("entry") == "adjoint_backward":
        from . import c14_backward
        return c14_backward.run_case(case, keep_log)
    log = EventLog(keep_log)
    probes = {k: 0 for k in PROBES}
    violation = None
    states = []
    tdt = stubs.DT[case["dtype"]]
    f32 = case["dtype"] == "float32"
    vtol = 2e-5 if f32 else 1e-11
    spec, solver = case["sde"], case["solver"]
    B, m, d = spec["batch"], spec["m"], spec["d"]
    y0 = stubs.make_y0(spec, case["dtype"])
    dt, dt_min = xf(case["dt"]), xf(case["dt_min"])
    rtol, atol = xf(case["rtol"]), xf(case["atol"])
    if case.get("scalars_as_tensors"):
        # the oracle uses the values actually handed over (a float32 tensor holds float32(1e-3), not 1e-3)
        dt, dt_min, rtol, atol = (float(torch.tensor(v, dtype=tdt)) for v in (dt, dt_min, rtol, atol))
    kw = {}
    if solver["options"]:
        kw["options"] = dict(solver["options"])
    conf = case["conf"]
    probes["conf_" + conf] = 1
    probes["via_sdeint_adjoint"] = int(case.get("entry") == "sdeint_adjoint")
    probes["f32"] = int(f32)
    probes["stiff"] = int(spec.get("stiff", 1.0) > 1)
    fired = {"miss": 0, "drop": 0, "blackout": 0}
    n_trials = 0
    span = 0.0
    word = ""
    try:
        ts = torch.tensor([xf(t) for t in case["ts"]], dtype=tdt)
        ts_list = [float(t) for t in ts]
        if any(b <= a for a, b in zip(ts_list[:-1], ts_list[1:])):
            raise SkipCase()
        t0, T = ts_list[0], ts_list[-1]
        span = T - t0
        if case["bm"] == "stub":
            inner = stubs.make_stub_brownian((B, m), tdt, case["bm_seed"], solver["levy"])
            probes["stub_bm"] = 1
            plan = None
        else:
            inner = torchsde.BrownianInterval(t0=t0, t1=T + 1.0, size=(B, m), dtype=tdt, entropy=case["bm_seed"],
                                              levy_area_approximation=solver["levy"], cache_size=case["cache_size"])
            plan = seams.FaultPlan()
            seams.install_faulty_cache(inner, plan)
            plan.begin_op([{"kind": "miss", "at": 7 * i + 3} for i in range(40)] + [{"kind": "drop", "at": 11 * i + 5} for i in range(20)])
            probes["real_bm"] = 1
        script = [xf(x) for x in case["script"]]

        def adaptive(ts_t):
            sde = stubs.make_sde(spec, case["dtype"])
            rec = stubs.make_recorder(inner)
            amax = span / dt_min + 2
            rc = math.log(1.4 * max(dt, span) / dt_min) / math.log(1 / 0.932) + 2
            bound = int(amax * (rc + 1)) + 10
            budget = 2_000_000 + 3000 * bound
            T_ = float(ts_t[-1])

            cur = {"trial": None, "mid": None, "n": 0, "state": 0, "openers": []}

            def online(k, ta, tb):
                # invariants that are cheapest to judge while the run proceeds (and that bound a runaway loop). The
                # requests of one trial come in the order opener (a,b), first half (a,mid), second half (mid,b); a
                # request repeated immediately (a solver asking twice per step) is tolerated at each position.
                if ta == tb:
                    return  # degenerate half of a 1-ulp trial (see known finding D7); judged after the run
                tr, mid, st_ = cur["trial"], cur["mid"], cur["state"]
                if tr is not None:
                    if st_ == 1 and (ta, tb) == tr:
                        return
                    if st_ in (1, 2) and ta == tr[0] and tb == mid:
                        cur["state"] = 2
                        return
                    if st_ in (2, 3) and ta == mid and tb == tr[1]:
                        cur["state"] = 3
                        return
                cur["trial"] = (ta, tb)
                cur["mid"] = float(0.5 * (torch.tensor(ta, dtype=tdt) + torch.tensor(tb, dtype=tdt)))
                cur["state"] = 1
                cur["n"] += 1
                cur["openers"].append((ta, tb, cur["mid"]))
                if cur["n"] > bound:
                    raise Online(Violation("too_many_trials", {"trials": cur["n"], "bound": bound}, cur["n"]))
                if tb != T_ and (tb - ta) < dt_min * (1 - 1e-6) - 2 * _ulp(tb, tdt):
                    raise Online(Violation("trial_shorter_than_dt_min", {"k": cur["n"] - 1, "a": fx(ta), "b": fx(tb),
                                                                         "dt_min": dt_min, "online": True}, cur["n"] - 1))
            rec.on_request = online
            as_t = case.get("scalars_as_tensors")
            sc = (lambda v: torch.tensor(v, dtype=tdt)) if as_t else (lambda v: v)
            a_dt, a_dt_min, a_rtol, a_atol = sc(dt), sc(dt_min), sc(rtol), sc(atol)
            with Recorder(conf, script) as R, seams.CallMonitor(budget) as mon:
                try:
                    with torch.no_grad():
                        if case.get("entry") == "sdeint_adjoint":
                            ys = torchsde.sdeint_adjoint(sde, y0, ts_t, bm=rec, method=solver["method"], dt=a_dt, adaptive=True,
                                                         rtol=a_rtol, atol=a_atol, dt_min=a_dt_min, adjoint_rtol=rtol * 37 + 1e-3,
                                                         adjoint_atol=atol * 37 + 1e-3, **kw)
                        else:
                            ys = torchsde.sdeint(sde, y0, ts_t, bm=rec, method=solver["method"], dt=a_dt, adaptive=True,
                                                 rtol=a_rtol, atol=a_atol, dt_min=a_dt_min, **kw)
                    if as_t:
                        got = [float(a_dt), float(a_dt_min), float(a_rtol), float(a_atol)]
                        want = [float(sc(dt)), float(sc(dt_min)), float(sc(rtol)), float(sc(atol))]
                        if got != want:
                            raise Violation("caller_scalar_modified", {"got": got, "want": want}, "run")
                except Online as o:
                    raise o.v
                except Violation:
                    raise
                except SimBudgetExceeded as e:
                    raise Violation("no_termination", {"trials_so_far": len(R.errs), "bound": bound, "msg": str(e)}, "run")
                except Exception as e:  # noqa
                    v = Violation(f"exception:{type(e).__name__}@{bm._where(e)}",
                                  {"msg": str(e)[:160], "trials_so_far": len(R.errs),
                                   "last_requests": [[fx(x) for x in tr[:2]] for tr in rec.trace[-3:]],
                                   "T": fx(float(ts_t[-1]))}, "run")
                    if isinstance(e, AssertionError) and "nans" in str(e) and scheme_diverged(list(rec.trace), len(R.errs)):
                        # the library's documented reaction to a diverging scheme (overflow -> nan), confirmed by
                        # re-executing the recorded schedule with public single-step calls: not a controller defect
                        probes["scheme_diverged"] = 1
                        raise Diverged()
                    raise v
            return ys, list(rec.trace), R, bound, list(cur["openers"])

        def scheme_diverged(trace, n_done):
            sde_m = stubs.make_sde(spec, case["dtype"])
            y, ex = y0, None
            try:
                for k in range(n_done + 1):
                    req = trace[3 * k: 3 * k + 3]
                    if len(req) < 1:
                        return False
                    a, b = req[0][0], req[0][1]
                    mid = float(0.5 * (torch.tensor(a, dtype=tdt) + torch.tensor(b, dtype=tdt)))
                    if not (a < mid < b):
                        return False
                    outs = []
                    for (p, q, yy, ee) in ((a, b, y, ex), (a, mid, y, ex)):
                        tt = torch.tensor([p, q], dtype=tdt)
                        with torch.no_grad():
                            r = torchsde.sdeint(sde_m, yy, tt, bm=inner, method=solver["method"], dt=(q - p) * 4 + 1.0,
                                                extra=True, extra_solver_state=ee, **kw)
                        outs.append(r)
                    y_mid, ex_mid = outs[1][0][-1], outs[1][1]
                    with torch.no_grad():
                        r = torchsde.sdeint(sde_m, y_mid, torch.tensor([mid, b], dtype=tdt), bm=inner, method=solver["method"],
                                            dt=(b - mid) * 4 + 1.0, extra=True, extra_solver_state=ex_mid, **kw)
                    y_half, ex_half = r[0][-1], r[1]
                    if not (bool(torch.isfinite(outs[0][0][-1]).all()) and bool(torch.isfinite(y_half).all())):
                        return True
                    accepted = k < n_done and (3 * (k + 1) >= len(trace) or trace[3 * (k + 1)][0] != a)
                    if accepted:
                        y, ex = y_half, ex_half
            except Exception:  # noqa
                return False
            return False

        if case.get("tail_ulps"):
            # first run to find an accepted boundary, then move the horizon a few ulp beyond it
            ys, trace, R, bound, openers = adaptive(ts)
            bnds = sorted({o[1] for o in openers})
            inside = [b for b in bnds if ts_list[-2] < b < T]
            if inside:
                cur = torch.tensor(inside[len(inside) // 2], dtype=tdt)
                for _ in range(case["tail_ulps"]):
                    cur = torch.nextafter(cur, torch.tensor(math.inf, dtype=tdt))
                ts = ts.clone()
                ts[-1] = cur
                ts_list = [float(t) for t in ts]
                T = ts_list[-1]
                span = T - t0
        ys, trace, R, bound, openers = adaptive(ts)
        log.add("adaptive", tdig(ys), len(trace), [fx(e) for e in R.errs[:50]])
        if tuple(ys.shape) != (len(ts_list), B, d) or ys.dtype != tdt:
            raise Violation("shape", {"shape": list(ys.shape)}, "run")
        n_trials = len(R.errs)
        if len(R.errs) != len(R.steps):
            raise Violation("trace_not_in_triples", {"requests": len(trace), "errs": len(R.errs), "updates": len(R.steps)}, "run")
        if n_trials > bound:
            raise Violation("too_many_trials", {"trials": n_trials, "bound": bound}, "run")
        # ---- the trials. Normally the request stream is exactly three requests per trial; it is also accepted when the
        # stream, segmented by the opener / first half / second half state machine of the online monitor, has one
        # opener per error estimate (a solver that asks twice per step, a shape probe before the loop)
        trials = None
        if len(trace) == 3 * n_trials:
            trials = []
            for k in range(n_trials):
                (a, b, _, _), (a2, mid, _, _), (m2, b2, _, _) = trace[3 * k: 3 * k + 3]
                if not (a2 == a and b2 == b and m2 == mid):
                    trials = None
                    break
                want_mid = float(0.5 * (torch.tensor(a, dtype=tdt) + torch.tensor(b, dtype=tdt)))
                if mid != want_mid:
                    raise Violation("midpoint", {"k": k, "a": fx(a), "b": fx(b), "mid": fx(mid)}, k)
                trials.append((a, b, mid))
        if trials is None and len(openers) == n_trials:
            trials = list(openers)
        if trials is None:
            last_len = (openers[-1][1] - openers[-1][0]) if openers else 1.0
            if openers and last_len <= 2 * _ulp(T, tdt):
                # a 1-2 ulp final trial repeats its opener as a half step; together with a non-standard request pattern
                # the stream cannot be segmented. Counted, not judged (the value model below still runs on `openers`).
                probes["unsegmentable_ulp_trial"] = 1
                raise SkipCase()
            raise Violation("trace_not_in_triples", {"requests": len(trace), "errs": n_trials, "openers": len(openers)}, "run")
        end = t0
        consec = 0
        for k, (a, b, mid) in enumerate(trials):
            err = R.errs[k]
            prev_step, new_step = R.steps[k]
            last = k == n_trials - 1
            accepted = last or trials[k + 1][0] != a
            if a != end:
                raise Violation("not_contiguous", {"k": k, "a": fx(a), "expected": fx(end)}, k)
            if not a < b:
                raise Violation("trial_not_advancing", {"k": k, "a": fx(a), "b": fx(b)}, k)
            if b > T or a < t0:
                raise Violation("trial_outside_interval", {"k": k, "a": fx(a), "b": fx(b), "T": fx(T)}, k)
            if b != T and (b - a) < dt_min * (1 - 1e-6) - 2 * _ulp(b, tdt):
                raise Violation("trial_shorter_than_dt_min", {"k": k, "a": fx(a), "b": fx(b), "dt_min": dt_min}, k)
            if accepted and not last and trials[k + 1][0] != b:
                raise Violation("not_contiguous", {"k": k + 1, "a": fx(trials[k + 1][0]), "expected": fx(b)}, k)
            if err <= 1 and not accepted:
                raise Violation("accept_rule_rejected_good_step", {"k": k, "err": err}, k)
            if err > 1 and accepted and not new_step <= dt_min:
                raise Violation("accept_rule_accepted_bad_step", {"k": k, "err": err, "new_step": new_step, "dt_min": dt_min}, k)
            if err > 1 and not new_step < prev_step:
                raise Violation("reject_does_not_shrink", {"k": k, "err": err, "prev": prev_step, "new": new_step}, k)
            if not accepted:
                consec += 1
                na, nb, _ = trials[k + 1]
                if (nb - na) > (b - a):
                    raise Violation("retry_longer", {"k": k, "len": b - a, "retry_len": nb - na}, k)
                probes["rejected"] += 1
                if (b - a) <= dt_min * (1 + 1e-6):
                    probes["rejection_at_dt_min"] += 1
            else:
                if consec >= 5:
                    probes["ge5_consecutive_rejections"] += 1
                consec = 0
                end = b
                probes["accepted"] += 1
                if err > 1:
                    probes["accepted_with_err_gt_1_at_dt_min"] += 1
            if abs(err - 1) <= 1e-9:
                probes["err_hugging_1"] += 1
            if (b - a) <= dt_min * (1 + 1e-6):
                probes["step_at_dt_min"] += 1
            word += "A" if accepted else "r"
        if end != T:
            raise Violation("does_not_end_at_T", {"end": fx(end), "T": fx(T)}, "run")
        if trials and trials[-1][1] - trials[-1][0] < 0.999 * R.steps[-2][1] if n_trials >= 2 else False:
            probes["final_step_clipped"] = 1
        if trials and (trials[-1][1] - trials[-1][0]) <= 4 * _ulp(T, tdt):
            probes["final_step_le_4ulp"] = 1
        probes["trials"] = n_trials
        # ---- independent value / decision oracle: re-execute with public non-adaptive single-step calls
        sde = stubs.make_sde(spec, case["dtype"])

        def one_step(y, a, b, extra_state):
            tt = torch.tensor([a, b], dtype=tdt)
            with torch.no_grad():
                ys1, ex1 = torchsde.sdeint(sde, y, tt, bm=inner, method=solver["method"], dt=(b - a) * 4 + 1.0,
                                           extra=True, extra_solver_state=extra_state, **kw)
            return ys1[-1], ex1

        cur_t, cur_y, cur_ex = t0, y0, None
        prev_t, prev_y = t0, y0
        out_i = 1
        model_ys = [y0]
        k = 0

        def flush_outputs():
            nonlocal out_i
            while out_i < len(ts_list) and cur_t >= ts_list[out_i]:
                t = ts_list[out_i]
                if cur_t == prev_t:
                    model_ys.append(cur_y)
                else:
                    w = (t - prev_t) / (cur_t - prev_t)
                    model_ys.append(prev_y.double() * (1 - w) + cur_y.double() * w)
                out_i += 1

        for k, (a, b, mid) in enumerate(trials):
            y_full, ex_full = one_step(cur_y, a, b, cur_ex)
            if a < mid < b:
                y_mid, ex_mid = one_step(cur_y, a, mid, cur_ex)
                y_half, ex_half = one_step(y_mid, mid, b, ex_mid)
            else:
                # a 1-ulp trial cannot be halved (its midpoint is one of its ends): a zero-length half step is the
                # identity, so the two-half-step solution *is* the full step (and the estimated error is 0). See D7.
                y_half, ex_half = y_full, ex_full
                probes["unsplittable_trial_modelled"] = 1
            probes["value_model_trials"] += 1
            if conf == "real":
                e_model = rms_error(y_full, y_half, rtol, atol)
                probes["err_recomputed"] += 1
                if abs(e_model - R.errs[k]) > 1e-7 * max(1.0, abs(e_model)) * (1000 if f32 else 1):
                    raise Violation("error_norm_differs", {"k": k, "observed": R.errs[k], "model": e_model}, k)
            accepted = (k == n_trials - 1) or trials[k + 1][0] != a
            if accepted:
                prev_t, prev_y = cur_t, cur_y
                cur_t, cur_y, cur_ex = b, y_half, ex_half
                flush_outputs()
        else:
            if len(model_ys) != len(ts_list):
                raise Violation("outputs_missing_in_model", {"have": len(model_ys), "want": len(ts_list)}, "model")
            for i, (ym, yo) in enumerate(zip(model_ys, ys)):
                sc = max(bm.maxabs(ym), 1.0)
                probes["outputs_checked"] += 1
                if not bool(torch.isfinite(ym).all()):
                    probes["model_nonfinite_skipped"] = 1  # the scheme itself diverged (e.g. overflow): nothing to compare
                    continue
                if not bool(torch.isfinite(yo).all()) or bm.maxabs(ym.double() - yo.double()) > vtol * sc:
                    raise Violation("values_not_two_half_steps", {"i": i, "t": fx(ts_list[i]),
                                                                  "err": bm.maxabs(ym.double() - yo.double())}, "model")
        states = [f"{solver['method']}/{spec['noise_type']}/{word[:200]}"]
        if plan is not None:
            fired = dict(plan.fired)
    except Diverged:
        pass
    except SkipCase:
        probes["skipped_degenerate_case"] = 1
    except Violation as v:
        violation = v.to_json()
    stats = {"faults": dict(fired, adversarial_error_values=len(case["script"]) if conf == "adv" else 0,
                            scripted_rejections=word.count("r") if conf == "adv" else 0),
             "probes": probes,
             "counters": {"ops": n_trials, "queries": n_trials * 3, "solver_steps": n_trials * 3, "sde_time": span},
             "states": states}
    out = {"violation": violation, "digest": log.digest(), "stats": stats}
    if keep_log:
        out["log"] = log.records
    return out


def finding_applies(finding, case, violation):
    """D7: adaptive SRK / grad-free Milstein whose final clipped trial is <= 2 ulp long -> zero-length half step."""
    if finding.get("id") != "D7":
        return False
    s = case["solver"]
    if not (s["method"] == "srk" or (s["method"] == "milstein" and (s.get("options") or {}).get("grad_free"))):
        return False
    d = violation.get("detail") or {}
    lrs, T = d.get("last_requests"), d.get("T")
    if not lrs or T is None:
        return False
    T = xf(T)
    tdt = stubs.DT[case["dtype"]]
    # one of the last requests is a zero-length half step (a == b) next to a horizon that is <= 2 ulp away
    for lr in lrs:
        a, b = xf(lr[0]), xf(lr[1])
        if a == b and abs(T - a) <= 2 * _ulp(T, tdt):
            return True
    return False


def nontrivial(stats):
    p = stats.get("probes", {})
    return bool(p.get("trials", 0) >= 3 and (p.get("rejected") or p.get("step_at_dt_min"))
                and (p.get("value_model_trials") or p.get("backward_trials")))


def sample_of(case, stats):
    c = dict(case)
    c["script"] = case["script"][:12]
    c["probes"] = stats.get("probes")
    return c


def simplify(case):
    for key, val in (("bm", "stub"), ("dtype", "float64"), ("tail_ulps", 0), ("cache_size", 45), ("entry", "sdeint")):
        if case.get(key) != val:
            c = copy.deepcopy(case)
            c[key] = val
            yield c
    if len(case["ts"]) > 2:
        for i in range(1, len(case["ts"]) - 1):
            c = copy.deepcopy(case)
            del c["ts"][i]
            yield c
    sp = case["sde"]
    for key, val in (("batch", 1), ("kind", "linear"), ("stiff", 1.0)):
        if sp.get(key) != val:
            c = copy.deepcopy(case)
            c["sde"][key] = val
            yield c
