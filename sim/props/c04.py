"""C04 — Brownian samples have exactly the law of Brownian motion.

The randomness seam turns the statistical statement into an algebraic one, decided exactly per run:

mode 'law'  : the object is built with a leading *label axis* (size = (L, *shape)); every normal draw is answered
              with unit label vectors (one fresh label per (seed, element)), so the value returned for an element
              IS its coefficient vector over independent N(0,1) sources and Cov(X, Y) = <coef X, coef Y> exactly.
              The Gram matrix of all answers (W and H = U/h - W/2 of every query, all elements) is compared with
              the exact covariance of Brownian-motion functionals (BMKernel). Caller-supplied W / H are label
              vectors too, so the same check proves the bridge law; bm(t0, t1) must return the supplied W bit-for-bit.
mode 'levy' : real (B, m) noise for W, H; the Levy-area draw is forced to 0 and to each basis tensor E_pq, which
              recovers the linear map noise -> A exactly: conditional mean H(x)W - W(x)H, conditional variance
              h^2/12 (Davie) / h^2/20 + (h/5)(H_i^2 + H_j^2) (Foster), antisymmetry, uncorrelated index pairs,
              Levy seeds distinct per node and distinct from W/H seeds.
Histories, cache faults, refinements, dyadic and non-dyadic trees as in the Brownian machine.
"""
import copy
import math
from fractions import Fraction

import numpy as np
import torch

from .. import bmachine as bm
from .. import seams
from ..core import EventLog, PassThrough, Streams, Violation, fx, xf

PROP = "C04"
RUNS = {"quick": 900, "thorough": 40000}
DEADLINE = {"quick": 200, "thorough": 3000}
BATCH = {"quick": 10, "thorough": 20}
RULE = ("case = (config, explicit op list with cache faults, mode law|levy, probe picks) from seeded named PRNG streams; "
        "law: Gram matrix of label-vector answers vs exact Brownian covariance for all pairs of (W,H) x queries x "
        "elements; levy: forced Levy noise (0 and each E_pq) on stored nodes; distinct = distinct hash of the case; "
        "non-trivial = (law: >= 3 non-empty queries with >= 1 overlapping pair compared; levy: >= 1 node probed) AND "
        "(a cache fault fired OR cache_size <= 3 OR the history has >= 10 queries)")
ASSUMPTIONS = ["draws made with different generator seeds are independent standard normals (torch Philox/MT19937 and "
               "numpy SeedSequence are trusted); Gaussianity follows from linearity in those draws",
               "every torchsde operation on W and H is element-wise over leading axes (so axis 0 can carry label "
               "coordinates); a draw that lacks the leading axis is by itself a violation (shared noise across elements)",
               "float64 only; covariance compared to 1e-9 relative, re-evaluated in exact rational arithmetic before "
               "any disagreement is reported",
               "histories are sampled, not enumerated"]
REAL_VS_STUB = {"real": ["torchsde.BrownianInterval/BrownianTree/BrownianPath arithmetic, tree, cache, seeds",
                         "numpy SeedSequence", "trampoline"],
                "stub": ["torch.randn replaced by label vectors (mode law) / forced Levy draws (mode levy)",
                         "value cache wrapped by FaultyCache (forwarding)", "np.random.randint (entropy seam)"]}
PROBES = ("law_runs", "levy_runs", "f32_law_runs", "levy_batch_confinement", "deep_sweeps", "levy_merged_mean", "point_evaluations", "gram_pairs", "overlapping_pairs", "H_checked", "bridge_W", "bridge_H", "whole_is_supplied",
          "cross_element_blocks", "levy_nodes_probed", "levy_foster", "levy_davie", "levy_root_probed", "levy_seeds_checked",
          "dyadic", "tol_grid", "tiny_cache", "labels_exhausted")
# (not listed in PROBES because it is expected to stay at zero in most batches: inconclusive_32bit_seed_collision)
STATE_MEASURE = "distinct final interval-tree shapes (hash of display_binary_tree dump)"

MIX = {"uniform": 4, "sweep": 2, "adaptive": 2, "cluster": 1.5, "nested": 1.5, "requery": 1, "whole": 1, "triple": 3,
       "tiny": 0.3, "dyadic": 1.5, "point": 1.0}


class LabelsExhausted(PassThrough):
    pass


def gen_case(seed, tier, idx):
    st = Streams(seed)
    rc = st.get("config")
    mode = "levy" if rc.random() < 0.35 else "law"
    if mode == "levy":
        cfg = bm.gen_config(rc, fronts=(("interval", 1),), levy=rc.choice(["davie", "foster"]), allow_f32=False)
        cfg["size"] = list(rc.choice([(1, 2), (2, 2), (1, 3), (2, 3), (2, 1, 2), (2, 2, 2), (3, 1, 2)]))
        cfg["supply_W"] = cfg["supply_H"] = False
    else:
        cfg = bm.gen_config(rc, fronts=(("interval", 7), ("tree", 1.5), ("path", 1)), allow_f32=False)
        cfg["size"] = list(rc.choice([(), (), (2,), (2,), (3,), (2, 2), (1, 3)]))
        if cfg["front"] in ("tree", "path") and len(cfg["size"]) == 0:
            cfg["size"] = [2]
        if cfg["front"] == "interval":
            cfg["supply_W"] = rc.random() < 0.3
            cfg["supply_H"] = cfg["levy"] != "none" and rc.random() < 0.25
        elif cfg["front"] == "tree":
            cfg["supply_W"] = rc.random() < 0.3
            cfg["supply_H"] = False
        else:
            cfg["supply_W"] = cfg["supply_H"] = False
        cfg["L"] = 2048 if int(np.prod(cfg["size"] or [1])) >= 4 else 1024
        cfg["dtype"] = "float32" if rc.random() < 0.12 else "float64"
    from .c05 import domain
    if mode == "law" and rc.random() < 0.12:
        # deep trees: several hundred consecutive steps (scalar sample, large label space). Seed hygiene between
        # nodes that are far apart in a deep tree only shows in histories like this.
        cfg.update(front="interval", size=[], L=8192, halfway=False, dtype="float64", tol=fx(0.0), gd=None, supply_W=False, supply_H=False,
                   cache_size=rc.choice([45, 45, 100, None, 10]), warmup=None,
                   levy=rc.choice(["none", "space-time"]))
        t0, t1 = xf(cfg["t0"]), xf(cfg["t1"])
        n = rc.choice([300, 520, 700])
        cfg["dt"] = fx((t1 - t0) / n) if rc.random() < 0.6 else None
        pts = [t0 + (t1 - t0) * i / n for i in range(n + 1)]
        ops = [bm._q(a, b, cfg["levy"] != "none", False, tag="deep") for a, b in zip(pts[:-1], pts[1:])]
        bm.add_faults(st.get("faults"), ops, rc.choice([0.0, 0.01, 0.05]))
        return {"mode": "law", "config": cfg, "ops": ops, "deep": True}
    dom = domain(cfg)
    ro = st.get("ops")
    n = ro.choice([2, 4, 8, 16, 30, 45])
    ops = [o for o in bm.gen_ops(ro, cfg, dom, n, MIX) if o["op"] == "q" or (mode == "law" and o["op"] == "point")][:60]
    for o in ops:
        if o["op"] != "q":
            continue
        o["U"] = cfg["levy"] != "none"
        o["A"] = mode == "levy"
    bm.apply_warm_rep(cfg, ops)
    rate = bm.gen_fault_rate(st.get("faults"))
    bm.add_faults(st.get("faults"), ops, rate)
    case = {"mode": mode, "config": cfg, "ops": ops}
    if mode == "levy":
        rp = st.get("probe")
        case["picks"] = [rp.random() for _ in range(rp.choice([2, 4, 6]))] + [0.0]
    return case


# ----------------------------------------------------------------------------------------
# BMKernel: exact covariance of  int phi dB  functionals
#   W(s,t): phi = 1 on [s,t]          H(s,t): phi(r) = 1/2 - (r-s)/(t-s) on [s,t]


def kernel_matrix(kind, s, t):
    """kind: array of 0 (W) / 1 (H); s, t: arrays. Returns the exact covariance matrix (float64, evaluated in
    coordinates shifted to the start of each overlap to avoid cancellation)."""
    kind = np.asarray(kind)
    s = np.asarray(s, dtype=np.float64)
    t = np.asarray(t, dtype=np.float64)
    h = t - s
    a = np.maximum(s[:, None], s[None, :])
    b = np.minimum(t[:, None], t[None, :])
    L = np.clip(b - a, 0.0, None)
    isH = (kind == 1)
    q = np.where(isH, -1.0 / h, 0.0)
    Ai = np.where(isH[:, None], 0.5 - (a - s[:, None]) / h[:, None], 1.0)
    Aj = np.where(isH[None, :], 0.5 - (a - s[None, :]) / h[None, :], 1.0)
    qi, qj = q[:, None], q[None, :]
    C = Ai * Aj * L + (Ai * qj + Aj * qi) * L * L / 2 + qi * qj * L * L * L / 3
    return np.where(L > 0, C, 0.0), L


def kernel_exact(k1, s1, t1, k2, s2, t2):
    """The same in exact rational arithmetic (floats are rationals)."""
    s1, t1, s2, t2 = Fraction(s1), Fraction(t1), Fraction(s2), Fraction(t2)
    a, b = max(s1, s2), min(t1, t2)
    if b <= a:
        return Fraction(0)
    L = b - a

    def coef(k, s, t):
        if k == 0:
            return Fraction(1), Fraction(0)
        h = t - s
        return Fraction(1, 2) - (a - s) / h, -1 / h

    A1, q1 = coef(k1, s1, t1)
    A2, q2 = coef(k2, s2, t2)
    return A1 * A2 * L + (A1 * q2 + A2 * q1) * L * L / 2 + q1 * q2 * L * L * L / 3


# ----------------------------------------------------------------------------------------
# mode law


class Labeller:
    def __init__(self, L, shape, reserved):
        self.L = L
        self.shape = tuple(shape)
        self.numel = int(np.prod(self.shape)) if self.shape else 1
        self.next = reserved
        self.by_seed = {}
        self.levy_size = (L, *self.shape, self.shape[-1]) if len(self.shape) >= 1 else None
        self.foreign = 0
        self.owners = {}  # seed -> set of node intervals that drew with it

    def chance_collisions(self):
        """Seeds drawn by more than one tree node. The library's per-node seeds are 32-bit values, so two of the n
        nodes of a run share one by chance with probability ~ n^2 / 2^33 (2.6e-4 for the 1500 nodes of a deep sweep)."""
        return sum(1 for v in self.owners.values() if len(v) > 1)

    def _owner(self):
        """Which tree node asked for this draw (its interval), found by looking up the call stack for a `self` with
        `_start`/`_end`. White-box and optional: None if nothing like that is on the stack."""
        import sys
        f = sys._getframe(2)
        for _ in range(6):
            if f is None:
                return None
            o = f.f_locals.get("self")
            if o is not None and hasattr(o, "_start") and hasattr(o, "_end"):
                try:
                    return (float(o._start), float(o._end))
                except Exception:  # noqa
                    return None
            f = f.f_back
        return None

    def fn(self, size, seed, kw):
        dtype = kw.get("dtype", torch.float64)
        if size == (self.L, *self.shape):
            own = self._owner()
            if own is not None:
                self.owners.setdefault(seed, set()).add(own)
            base = self.by_seed.get(seed)
            if base is None:
                if self.next + self.numel > self.L:
                    raise LabelsExhausted()
                base = self.by_seed[seed] = self.next
                self.next += self.numel
            out = torch.zeros(size, dtype=dtype)
            idx = torch.arange(self.numel)
            out.view(self.L, self.numel)[base + idx, idx] = 1.0
            return out
        if self.levy_size is not None and size == self.levy_size:
            return torch.zeros(size, dtype=dtype)  # Levy-area noise is examined in mode 'levy'
        self.foreign += 1
        return None  # a draw of any other shape: served with real noise -> the Gram check will expose it


def _run_law(case, log, probes):
    import torchsde
    cfg = case["config"]
    shape = tuple(cfg["size"])
    L = cfg["L"]
    numel = int(np.prod(shape)) if shape else 1
    size = (L, *shape)
    t0, t1 = xf(cfg["t0"]), xf(cfg["t1"])
    span = t1 - t0
    reserved = 0
    W_sup = H_sup = None
    idx = torch.arange(numel)
    dt_ = bm.DTYPES[cfg.get("dtype", "float64")]
    f32 = dt_ == torch.float32
    if cfg.get("supply_W"):
        W_sup = torch.zeros(size, dtype=dt_)
        W_sup.view(L, numel)[reserved + idx, idx] = math.sqrt(span)
        reserved += numel
    if cfg.get("supply_H"):
        H_sup = torch.zeros(size, dtype=dt_)
        H_sup.view(L, numel)[reserved + idx, idx] = math.sqrt(span / 12)
        reserved += numel
    lab = Labeller(L, shape, reserved)
    st = Streams(1)
    plan = seams.FaultPlan()
    answers = []  # (kind, s, t, tensor (L, numel))
    n_q = 0
    with seams.RandnSeam("custom", lab.fn), seams.entropy_seam(st.get("entropy")):
        try:
            if cfg["front"] == "interval":
                kw = dict(t0=t0, t1=t1, size=size, dtype=dt_, entropy=cfg["entropy"], tol=xf(cfg["tol"]),
                          pool_size=cfg["pool_size"], cache_size=cfg["cache_size"], halfway_tree=cfg["halfway"],
                          levy_area_approximation=cfg["levy"])
                if cfg["dt"] is not None:
                    kw["dt"] = xf(cfg["dt"])
                if W_sup is not None:
                    kw["W"] = W_sup
                if H_sup is not None:
                    kw["H"] = H_sup
                front = torchsde.BrownianInterval(**kw)
                dom = (t0, t1)
            elif cfg["front"] == "tree":
                w0 = torch.full(size, 3.0, dtype=dt_)  # non-zero start value: only point evaluations add it
                if W_sup is not None:
                    w1 = W_sup + w0
                    W_sup = w1 - w0  # the increment BrownianTree derives from (w0, w1), bit-for-bit
                front = torchsde.BrownianTree(t0=t0, w0=w0, t1=t1, w1=None if W_sup is None else w1, entropy=cfg["entropy"],
                                              tol=xf(cfg["tol"]), pool_size=cfg["pool_size"])
                dom = (t0, t1)
            else:
                w0 = torch.full(size, 3.0, dtype=dt_)
                front = torchsde.BrownianPath(t0=t0, w0=w0)
                dom = (t0, t0 + 1.0)
            cache, interval = seams.install_faulty_cache(front, plan)
            built = bm.Built(cfg, front, interval, plan, cache, dom, None)
            ex = bm.BMExec(built, log)
            have_U = cfg["levy"] != "none" and cfg["front"] == "interval"
            w0_ = w0 if cfg["front"] in ("tree", "path") else None
            for i, op in enumerate(case["ops"]):
                if op["op"] == "point":
                    t = xf(op["t"])
                    out = ex.point(t, op.get("faults"), i)
                    if tuple(out.shape) != size:
                        raise Violation("shape", {"msg": f"point form {tuple(out.shape)}"}, i)
                    if w0_ is not None:
                        out = out - w0_
                    if dom[0] < t:
                        probes["point_evaluations"] += 1
                        answers.append((0, dom[0], t, out.reshape(L, numel).double(), i))
                    continue
                ta, tb = xf(op["ta"]), xf(op["tb"])
                if op.get("og"):
                    continue
                res = ex.raw(ta, tb, have_U, False, op.get("faults"), i)
                for _ in range(op.get("rep", 0)):
                    ex.raw(ta, tb, have_U, False, None, i)
                if not ta < tb:
                    continue
                n_q += 1
                if tuple(res["W"].shape) != size:
                    raise Violation("shape", {"msg": f"W {tuple(res['W'].shape)}"}, i)
                W = res["W"].reshape(L, numel).double()
                answers.append((0, ta, tb, W, i))
                if res["U"] is not None:
                    H = res["U"].reshape(L, numel).double() / (tb - ta) - 0.5 * W
                    answers.append((1, ta, tb, H, i))
                if W_sup is not None and (ta, tb) == dom:
                    probes["whole_is_supplied"] += 1
                    if not torch.equal(res["W"], W_sup):
                        raise Violation("bridge_whole_W", {"err": bm.maxabs(res["W"] - W_sup)}, i)
            # the whole interval is always part of the Gram matrix when W / H were supplied (bridge law)
            if W_sup is not None or H_sup is not None:
                res = ex.raw(dom[0], dom[1], have_U, False, None, "whole")
                if W_sup is not None and not torch.equal(res["W"], W_sup):
                    raise Violation("bridge_whole_W", {"err": bm.maxabs(res["W"] - W_sup)}, "whole")
                Ww = res["W"].reshape(L, numel).double()
                if H_sup is not None:
                    if res["U"] is None:
                        raise Violation("bridge_whole_H", {"msg": "no U returned although H was supplied"}, "whole")
                    H_ret = res["U"] / (dom[1] - dom[0]) - 0.5 * res["W"]
                    if bm.maxabs(H_ret - H_sup) > (1e-5 if f32 else 1e-12) * max(bm.maxabs(H_sup), 1e-300):
                        raise Violation("bridge_whole_H", {"err": bm.maxabs(H_ret - H_sup)}, "whole")
                answers.append((0, dom[0], dom[1], Ww, "whole"))
                if res["U"] is not None:
                    answers.append((1, dom[0], dom[1], res["U"].reshape(L, numel).double() / (dom[1] - dom[0]) - 0.5 * Ww, "whole"))
                probes["bridge_W"] += int(W_sup is not None)
                probes["bridge_H"] += int(H_sup is not None)
        except LabelsExhausted:
            probes["labels_exhausted"] = 1
        except bm.CaseTooExpensive:
            probes["truncated_designed_bound"] = 1
    n_inner = sum(1 for a in answers if (a[1], a[2]) != tuple(dom)) if "dom" in locals() else 0
    if n_inner > 0 and not lab.by_seed and lab.foreign == 0 and not probes.get("labels_exhausted"):
        # torchsde answered queries strictly inside the interval (which cannot be served from a supplied W/H alone)
        # without a single draw through torch.randn (of any shape): the randomness
        # seam is not engaged (e.g. the library switched to another sampling API). That is a harness limitation to be
        # reported as such (exit 2), never a verdict about the law.
        from ..core import HarnessError
        raise HarnessError("C04: randomness seam not engaged - no torch.randn draw of the sample shape was observed")
    if lab.chance_collisions() == 1:
        # exactly one 32-bit seed shared by two nodes: a birthday collision of the library's 32-bit node seeds, not a
        # defect of the law (a systematic sharing - wrapped spawn keys, a reused seed attribute - shows up as many
        # collisions or as none at all, and is judged). The run is inconclusive: counted, not judged.
        probes["inconclusive_32bit_seed_collision"] = 1
        return built if "built" in locals() else None, plan, n_q
    probes["f32_law_runs"] = int(f32)
    gram_check(answers, numel, probes, foreign=lab.foreign, rtol=2e-4 if f32 else 1e-9)
    return built if "built" in locals() else None, plan, n_q


def gram_check(answers, numel, probes, foreign=0, rtol=1e-9):
    if not answers:
        return
    kind = [a[0] for a in answers]
    s = [a[1] for a in answers]
    t = [a[2] for a in answers]
    C, Lov = kernel_matrix(kind, s, t)
    K = len(answers)
    V = torch.stack([a[3] for a in answers], dim=0)  # (K, L, numel)
    probes["gram_pairs"] += K * (K + 1) // 2 * numel
    probes["overlapping_pairs"] += int(((Lov > 0).sum() - K) // 2)
    probes["H_checked"] += sum(kind)
    var = np.diag(C)
    scale = np.sqrt(np.outer(var, var))
    # rounding: an answer over a short interval is obtained by cancellation from its ancestors' (much larger) values,
    # so its coefficient vector carries an absolute error ~ k * eps * sqrt(largest variance in the tree)
    sd = np.sqrt(var)
    abs_term = (1e-5 if rtol > 1e-6 else 1e-13) * math.sqrt(float(var.max())) * (sd[:, None] + sd[None, :])
    for e in range(numel):
        Ve = V[:, :, e]
        G = (Ve @ Ve.T).numpy()
        bad = np.abs(G - C) > rtol * scale + abs_term + 1e-300
        if bad.any():
            i, j = [int(x) for x in np.argwhere(bad)[0]]
            exact = kernel_exact(kind[i], s[i], t[i], kind[j], s[j], t[j])
            sc = math.sqrt(float(kernel_exact(kind[i], s[i], t[i], kind[i], s[i], t[i])) *
                           float(kernel_exact(kind[j], s[j], t[j], kind[j], s[j], t[j])))
            if abs(float(G[i, j]) - float(exact)) > rtol * sc + float(abs_term[i, j]):
                names = "WH"
                if i == j:
                    vclass = f"law_var_{names[kind[i]]}"
                elif Lov[i, j] <= 0:
                    vclass = "law_disjoint_dependent"
                else:
                    vclass = f"law_cov_{names[kind[i]]}{names[kind[j]]}"
                raise Violation(vclass, {"x": [names[kind[i]], fx(s[i]), fx(t[i])], "y": [names[kind[j]], fx(s[j]), fx(t[j])],
                                         "got": float(G[i, j]), "want": float(exact), "element": e,
                                         "foreign_draws": foreign}, answers[j][4])
        # different elements must have disjoint noise support: zero covariance, exactly
        for e2 in range(e + 1, numel):
            X = (Ve @ V[:, :, e2].T).numpy()
            probes["cross_element_blocks"] += 1
            if (np.abs(X) > max(1e-12, rtol * 1e-3) * max(scale.max(), 1e-300) + abs_term).any():
                i, j = [int(x) for x in np.argwhere(np.abs(X) == np.abs(X).max())[0]]
                raise Violation("law_cross_element", {"x": [kind[i], fx(s[i]), fx(t[i])], "y": [kind[j], fx(s[j]), fx(t[j])],
                                                      "elements": [e, e2], "got": float(X[i, j])}, answers[j][4])


# ----------------------------------------------------------------------------------------
# mode levy


class LevyForcer:
    def __init__(self, size):
        self.levy_size = (*size, size[-1])
        self.size = tuple(size)
        self.force = None  # None: real noise; else tensor
        self.levy_seeds = []
        self.wh_seeds = set()
        self.shared_levy_draws = []

    def fn(self, size, seed, kw):
        m = self.size[-1]
        if size != self.levy_size and len(size) >= 2 and size[-2:] == (m, m) and size != self.size:
            # a Levy-area draw that does not have one (m, m) block per batch element: the noise is shared
            self.shared_levy_draws.append(size)
        if size == self.levy_size:
            self.levy_seeds.append(seed)
            if self.force is not None:
                return self.force.to(kw.get("dtype", torch.float64)).clone()
            return None
        if size == self.size:
            self.wh_seeds.add(seed)
        return None


def _run_levy(case, log, probes):
    cfg = case["config"]
    size = tuple(cfg["size"])
    m = size[-1]
    st = Streams(1)
    forcer = LevyForcer(size)
    with seams.RandnSeam("custom", forcer.fn):
        built = bm.build(cfg, st.get("entropy"))
        ex = bm.BMExec(built, log)
        n_q = 0
        try:
            for i, op in enumerate(case["ops"]):
                ta, tb = xf(op["ta"]), xf(op["tb"])
                ex.raw(ta, tb, True, True, op.get("faults"), i)
                for _ in range(op.get("rep", 0)):
                    ex.raw(ta, tb, True, True, None, i)
                n_q += 1
        except bm.CaseTooExpensive:
            probes["truncated_designed_bound"] = 1
            return built, n_q
        if forcer.shared_levy_draws and int(np.prod(size[:-1])) > 1:
            raise Violation("levy_noise_shared_across_elements", {"draw_size": list(forcer.shared_levy_draws[0]),
                                                                  "expected": list(forcer.levy_size)}, "levy")
        forcer.force = torch.zeros(forcer.levy_size, dtype=torch.float64)
        from .c03 import levy_fold_check
        fold_probes = {"levy_fold_multi": 0, "levy_fold_3plus": 0}
        done = 0
        for i, op in enumerate(case["ops"]):
            if op.get("og") or not xf(op["ta"]) < xf(op["tb"]) or done >= 8:
                continue
            res = ex.raw(xf(op["ta"]), xf(op["tb"]), True, True, None, ("merged", i))
            try:
                levy_fold_check(ex, built, cfg, op, res, ("merged", i), fold_probes)
            except Violation as v:
                raise Violation("levy_mean_merged", v.detail, v.at_op)
            done += 1
        probes["levy_merged_mean"] += fold_probes["levy_fold_multi"]
        forcer.force = None
        try:
            nodes = [(a, b) for (_, a, b) in bm.dump_tree(built.interval) if a < b]
        except Exception:  # noqa  (tree dump unavailable or in another format: fall back to the queried intervals)
            probes["tree_dump_unavailable"] = 1
            nodes = [(built.dom[0], built.dom[1])] + [(xf(o["ta"]), xf(o["tb"])) for o in case["ops"]
                                                      if not o.get("og") and xf(o["ta"]) < xf(o["tb"])]
        seen_seed = {}
        foster = cfg["levy"] == "foster"
        probes["levy_foster" if foster else "levy_davie"] += 1
        for frac in case["picks"]:
            a, b = nodes[min(int(frac * len(nodes)), len(nodes) - 1)]
            h = b - a
            if (a, b) == nodes[0]:
                probes["levy_root_probed"] += 1
            forcer.force = torch.zeros(forcer.levy_size, dtype=torch.float64)
            forcer.levy_seeds = []
            r0 = ex.raw(a, b, True, True, None, "levy0")
            if len(forcer.levy_seeds) != 1:
                # the node was answered from several pieces or without a Levy draw: not a single stored node
                continue
            seed = forcer.levy_seeds[0]
            W, U, A0 = r0["W"], r0["U"], r0["A"]
            H = U / h - 0.5 * W
            mean = H.unsqueeze(-1) * W.unsqueeze(-2) - W.unsqueeze(-1) * H.unsqueeze(-2)
            sc = max(bm.maxabs(mean), h, 1e-300)
            probes["levy_nodes_probed"] += 1
            if bm.maxabs(A0 - mean) > 1e-10 * sc:
                raise Violation("levy_mean", {"a": fx(a), "b": fx(b), "err": bm.maxabs(A0 - mean)}, "levy")
            D = torch.zeros((m, m, *A0.shape), dtype=torch.float64)
            for p in range(m):
                for q in range(m):
                    E = torch.zeros(forcer.levy_size, dtype=torch.float64)
                    E[..., p, q] = 1.0
                    forcer.force = E
                    r = ex.raw(a, b, True, True, None, "levyE")
                    if not (torch.equal(r["W"], W) and torch.equal(r["U"], U)):
                        raise Violation("levy_probe_changed_WH", {"a": fx(a), "b": fx(b)}, "levy")
                    D[p, q] = r["A"] - A0
            if int(np.prod(size[:-1])) > 1:
                # noise of batch element 0 only: the response must be confined to batch element 0
                E = torch.zeros(forcer.levy_size, dtype=torch.float64)
                E.reshape(-1, m, m)[0, 0, m - 1] = 1.0
                forcer.force = E
                r = ex.raw(a, b, True, True, None, "levyB")
                Db = (r["A"] - A0).reshape(-1, m, m)
                probes["levy_batch_confinement"] += 1
                if bm.maxabs(Db[1:]) > 1e-9 * h:
                    raise Violation("levy_noise_leaks_across_batch", {"a": fx(a), "b": fx(b), "got": bm.maxabs(Db[1:])}, "levy")
            forcer.force = None
            Df = D.reshape(m * m, *A0.shape)
            cov = torch.einsum("k...ij,k...uv->...ijuv", Df, Df)  # covariance between entries (i,j) and (u,v)
            H2 = H ** 2
            if foster:
                want = h * h / 20 + (h / 5) * (H2.unsqueeze(-1) + H2.unsqueeze(-2))
            else:
                want = torch.full(A0.shape, h * h / 12, dtype=torch.float64)
            for i in range(m):
                for j in range(m):
                    v = cov[..., i, j, i, j]
                    if i == j:
                        if bm.maxabs(v) > 1e-9 * h * h:
                            raise Violation("levy_diag_nonzero", {"a": fx(a), "b": fx(b), "got": bm.maxabs(v)}, "levy")
                        continue
                    w = want[..., i, j]
                    if bool(((v - w).abs() > 1e-7 * w).any()):
                        raise Violation("levy_var", {"a": fx(a), "b": fx(b), "ij": [i, j], "got": float(v.flatten()[0]),
                                                     "want": float(w.flatten()[0]), "mode": cfg["levy"]}, "levy")
                    c = cov[..., i, j, j, i]
                    if bool(((c + w).abs() > 1e-7 * w).any()):
                        raise Violation("levy_not_antisymmetric", {"a": fx(a), "b": fx(b), "ij": [i, j]}, "levy")
                    for u in range(m):
                        for vv in range(m):
                            if {u, vv} != {i, j} and u != vv:
                                x = cov[..., i, j, u, vv]
                                if bool((x.abs() > 1e-7 * w).any()):
                                    raise Violation("levy_pairs_correlated", {"a": fx(a), "b": fx(b), "ij": [i, j],
                                                                              "uv": [u, vv]}, "levy")
            # seed hygiene
            probes["levy_seeds_checked"] += 1
            prev = seen_seed.get(seed)
            if prev is not None and prev != (a, b):
                raise Violation("levy_seed_shared_between_nodes", {"nodes": [[fx(prev[0]), fx(prev[1])], [fx(a), fx(b)]]}, "levy")
            seen_seed[seed] = (a, b)
            if seed in forcer.wh_seeds:
                raise Violation("levy_seed_shared_with_WH", {"a": fx(a), "b": fx(b)}, "levy")
    return built, n_q


def run_case(case, keep_log=False):
    log = EventLog(keep_log)
    probes = {k: 0 for k in PROBES}
    violation = None
    built = None
    plan = None
    n_q = 0
    cfg = case["config"]
    try:
        if case["mode"] == "law":
            probes["law_runs"] = 1
            probes["deep_sweeps"] = int(bool(case.get("deep")))
            built, plan, n_q = _run_law(case, log, probes)
        else:
            probes["levy_runs"] = 1
            built, n_q = _run_levy(case, log, probes)
            plan = built.plan
    except Violation as v:
        violation = v.to_json()
    if cfg["halfway"]:
        probes["dyadic"] = 1
    if xf(cfg["tol"]) > 0:
        probes["tol_grid"] = 1
    cs = cfg["cache_size"]
    if cs is not None and cs <= 3:
        probes["tiny_cache"] = 1
    probes["n_queries"] = n_q
    states = []
    if built is not None and built.interval is not None and violation is None:
        try:
            states = [bm.tree_shape_hash(bm.dump_tree(built.interval))]
        except Exception:  # noqa
            pass
    fired = dict(plan.fired) if plan is not None else {}
    span = xf(cfg["t1"]) - xf(cfg["t0"])
    stats = {"faults": fired, "probes": probes,
             "counters": {"ops": len(case["ops"]), "queries": n_q,
                          "sde_time": sum(xf(o["tb"]) - xf(o["ta"]) for o in case["ops"] if o["op"] == "q")},
             "states": states}
    out = {"violation": violation, "digest": log.digest(), "stats": stats}
    if keep_log:
        out["log"] = log.records
    return out


def nontrivial(stats):
    p = stats.get("probes", {})
    f = stats.get("faults", {})
    stress = sum(f.values()) or p.get("tiny_cache") or p.get("n_queries", 0) >= 10
    if p.get("law_runs"):
        return bool(p.get("n_queries", 0) >= 3 and p.get("overlapping_pairs", 0) >= 1 and stress)
    return bool(p.get("levy_nodes_probed", 0) >= 1 and stress)


def sample_of(case, stats):
    return {"mode": case["mode"], "config": case["config"], "n_ops": len(case["ops"]), "first_ops": case["ops"][:6],
            "picks": case.get("picks"), "faults_fired": stats.get("faults"), "probes": stats.get("probes")}


def simplify(case):
    ops = case["ops"]
    for i, op in enumerate(ops):
        for f in ("faults", "rep"):
            if op.get(f):
                c = copy.deepcopy(case)
                c["ops"][i].pop(f)
                yield c
    if case["mode"] == "levy" and len(case["picks"]) > 1:
        for i in range(len(case["picks"])):
            c = copy.deepcopy(case)
            del c["picks"][i]
            yield c
    cfg = case["config"]
    cands = [("warmup", None), ("pool_size", 8), ("cache_size", 45), ("supply_W", False), ("supply_H", False)]
    if case["mode"] == "law":
        cands += [("size", []), ("size", [2])]
    for key, val in cands:
        if cfg.get(key) != val:
            if key == "size" and cfg["front"] in ("tree", "path") and val == []:
                continue
            c = copy.deepcopy(case)
            c["config"][key] = val
            yield c
