"""C06 — seeded reproducibility; query-order independence in dyadic-tree mode.

Replica experiments, all bit-exact (D added after an independently seeded change showed the gap: a process-global
memo of per-node seeds keyed without pool_size):
 A  two objects, identical arguments, the same op stream, *independent* cache-fault plans -> identical answers
 B  dyadic mode (halfway_tree=True / BrownianTree): two objects, same entropy, *different* histories and fault
    plans, then a common probe set (on / off the tolerance grid, multi-piece, with U and A) -> identical answers
 C  a different entropy gives a different path
 T  two independent objects used from two threads under a seeded, deterministic interleaving (baton-passing real
    threads; pre-emption points at every line of torchsde/trampoline code and at every normal draw) -> each thread's
    answers equal those of a sequential replica. Catches state shared between objects that only bites under a
    particular interleaving (a module-level generator re-seeded before each draw).
 D  "depends only on the entropy and options": a replica evaluated in a *forked child process* (which never sees the
    decoy) versus the same construction in the parent AFTER a decoy object with the same entropy but other options
    (pool_size, Levy mode) has been built and queried over the same intervals -> identical answers. Catches state
    shared between objects (module-level caches, class attributes).
"""
import multiprocessing as mp
import copy

import torch

from .. import bmachine as bm
from ..core import EventLog, Streams, Violation, fx, xf
from .c05 import domain

PROP = "C06"
RUNS = {"quick": 1200, "thorough": 50000}
DEADLINE = {"quick": 200, "thorough": 3000}
OPS_KEYS = ("ops", "ops2", "probes")
RULE = ("case = (config with explicit entropy incl. edge values, experiment A | B | D (decoy + fresh-process replica) | "
        "T (two threads under a seeded baton-passing scheduler), op list(s) with independent cache-fault plans, probe "
        "list with one-sided pre-probe ops) from seeded named PRNG streams; distinct = distinct hash of the case; non-trivial = at least one "
        "pair of answers from the two replicas was compared AND (a cache fault fired in either replica OR cache_size "
        "<= 3) AND, for experiment B, the two histories differ")
ASSUMPTIONS = ["torch.Generator/np.random.SeedSequence are deterministic functions of their seed",
               "entropy=None constructions are outside this property (no entropy to equate)",
               "histories are sampled, not enumerated"]
REAL_VS_STUB = {"real": ["torchsde.BrownianInterval/BrownianTree/ReverseBrownian", "trampoline", "numpy SeedSequence",
                         "torch kernels"],
                "stub": ["value cache wrapped by FaultyCache (forwarding), one independent plan per replica",
                         "thread scheduler (sim/threads.py): real threads, interleaving decided by the simulator (experiment T)",
                         "torch.randn wrapped as a pre-emption point (experiment T)"]}
PROBES = ("pairs_compared", "expA", "expB", "expD", "expX_fresh_interpreter", "expT", "one_sided_pre_probe_ops", "thread_switches", "preemption_points", "expB_histories_differ", "expB_trees_differ", "probe_offgrid", "probe_with_A",
          "probe_with_U", "entropy_differs_checked", "tree_front", "reverse_front", "tiny_cache")
STATE_MEASURE = "distinct pairs of final interval-tree shapes of the two replicas"


def gen_case(seed, tier, idx):
    st = Streams(seed)
    rc = st.get("config")
    x = rc.random()
    exp = "B" if x < 0.5 else ("A" if x < 0.84 else ("D" if x < 0.93 else "T"))
    if exp == "T":
        cfg = bm.gen_config(rc, fronts=(("interval", 5), ("tree", 1)), small=True)
        if cfg["entropy"] is None:
            cfg["entropy"] = rc.randrange(0, 2 ** 31 - 1)
        dom = domain(cfg)
        ro = st.get("ops")
        ops = bm.gen_ops(ro, cfg, dom, ro.choice([2, 4, 8]), {"uniform": 3, "sweep": 1, "triple": 1, "requery": 1, "dyadic": 1})[:12]
        ops2 = bm.gen_ops(st.get("ops2"), cfg, dom, ro.choice([2, 4, 8]), {"uniform": 3, "sweep": 1, "triple": 1, "requery": 1})[:12]
        return {"config": cfg, "exp": "T", "ops": ops, "ops2": ops2, "probes": [],
                "entropy2": rc.choice([cfg["entropy"], cfg["entropy"], rc.randrange(0, 2 ** 31 - 1)]),
                "sched_seed": rc.randrange(1 << 30), "rate": rc.choice([0.02, 0.1, 0.3])}
    if exp == "D":
        cfg = bm.gen_config(rc, fronts=(("interval", 5), ("tree", 2)), halfway=(rc.random() < 0.6))
    elif exp == "B":
        cfg = bm.gen_config(rc, fronts=(("interval", 5), ("tree", 2.5), ("reverse", 1.5)), halfway=True)
    else:
        cfg = bm.gen_config(rc, fronts=(("interval", 6), ("tree", 1.5), ("reverse", 1.5)))
    if cfg["entropy"] is None:
        cfg["entropy"] = rc.randrange(0, 2 ** 31 - 1)
    dom = domain(cfg)
    ro = st.get("ops")
    sizes = [0, 1, 3, 8, 20, 50] if tier == "quick" else [0, 1, 3, 8, 20, 50, 200]
    case = {"config": cfg, "exp": exp, "other_entropy": rc.randrange(3)}
    if exp == "D":
        ops = bm.gen_ops(ro, cfg, dom, max(2, ro.choice([3, 8, 20, 50])))
        bm.add_faults(st.get("faults"), ops, bm.gen_fault_rate(st.get("faults")))
        decoy = {"pool_size": rc.choice([p for p in (4, 8, 24) if p != cfg["pool_size"]])}
        if cfg["front"] == "interval" and rc.random() < 0.4:
            decoy["levy"] = rc.choice([l for l in bm.LEVY if l != cfg["levy"]])
        z = rc.random()
        if z < 0.25:
            decoy["dtype"] = "float32" if cfg["dtype"] == "float64" else "float64"
        elif z < 0.5 and len(cfg["size"]) >= 1:
            decoy["size"] = [1] + list(cfg["size"][1:])  # same entropy, another (broadcast-compatible) sample shape
        if rc.random() < 0.4 and not cfg["halfway"]:
            decoy["sweep"] = 130  # the decoy is also driven through a long run of small steps (its estimator refines)
        case.update(ops=ops, ops2=[], probes=[], decoy=decoy)
        # experiment X (round 3): the same replica once more in a *fresh interpreter* under another hash salt
        # ("same entropy and options => same answers" also across processes / sessions)
        rx = st.get("expX")
        if rx.random() < 0.12:
            case["fresh_interp_hashseed"] = rx.choice([1, 2, 7, 12345, 4294967295])
        return case
    if exp == "A":
        ops = bm.gen_ops(ro, cfg, dom, max(2, ro.choice(sizes)))
        bm.apply_warm_rep(cfg, ops)
        rate = bm.gen_fault_rate(st.get("faults"))
        bm.add_faults(st.get("faults"), ops, rate)
        # the second replica gets its own, independent plan
        other = copy.deepcopy(ops)
        for o in other:
            o.pop("faults", None)
        bm.add_faults(st.get("faults2"), other, bm.gen_fault_rate(st.get("faults2")))
        for o, o2 in zip(ops, other):
            if o2.get("faults"):
                o["faults2"] = o2["faults"]
        case.update(ops=ops, ops2=[], probes=[])
    else:
        n1, n2 = ro.choice(sizes), ro.choice(sizes)
        ops = bm.gen_ops(ro, cfg, dom, n1) if n1 else []
        ops2 = bm.gen_ops(st.get("ops2"), cfg, dom, n2) if n2 else []
        bm.add_faults(st.get("faults"), ops, bm.gen_fault_rate(st.get("faults")))
        bm.add_faults(st.get("faults2"), ops2, bm.gen_fault_rate(st.get("faults2")))
        rp = st.get("probe")
        probes = bm.gen_ops(rp, cfg, dom, rp.choice([4, 10, 25]),
                            {"uniform": 4, "cluster": 1, "nested": 1, "whole": 0.5, "offgrid": 2, "zero": 0.3,
                             "sweep": 1, "point": 0.5})
        # some probes repeat queries that only one of the histories contains
        pool = [o for o in ops + ops2 if o["op"] == "q"]
        for _ in range(min(len(pool), 5)):
            o = dict(rp.choice(pool))
            o.pop("faults", None)
            o.pop("rep", None)
            probes.append(o)
        # one-sided ops in the probe phase: an op that only replica 1 sees right before a probe - with tol > 0 a
        # near-duplicate of the probe (same resolved end points, slightly different exact times), otherwise any op
        tol = xf(cfg["tol"])
        for pr in probes:
            if pr["op"] == "point" and rp.random() < 0.5:
                # a point evaluation at an earlier time that only replica 1 sees right before this point probe
                t_ = xf(pr["t"])
                pr["pre1"] = {"op": "point", "t": fx(bm._t(rp, cfg, dom, dom[0], t_))}
                continue
            if pr["op"] != "q" or rp.random() >= 0.3:
                continue
            if tol > 0 and rp.random() < 0.7:
                a, b = xf(pr["ta"]), xf(pr["tb"])
                a2 = min(max(a + tol * rp.choice([0.03, -0.03, 0.2, -0.2]), dom[0]), dom[1])
                if a2 < b:
                    pr["pre1"] = bm._q(a2, b, pr["U"], pr["A"], tag="near_dup", og=True)
            else:
                extra = bm.gen_ops(rp, cfg, dom, 1, {"uniform": 1})
                if extra and extra[0]["op"] == "q":
                    pr["pre1"] = extra[0]
        case.update(ops=ops, ops2=ops2, probes=probes)
    return case


def _call(ex, op, idx, faults):
    if bm.apply_env(op, ex):
        return {}
    if op["op"] == "point":
        return {"P": ex.point(xf(op["t"]), faults, idx)}
    res = ex.raw(xf(op["ta"]), xf(op["tb"]), op["U"], op["A"], faults, idx, op.get("targ"))
    for _ in range(op.get("rep", 0)):
        ex.raw(xf(op["ta"]), xf(op["tb"]), op["U"], op["A"], None, idx)
    return res


def _same(r1, r2, op, idx, where):
    for comp in r1:
        a, b = r1[comp], r2[comp]
        if (a is None) != (b is None):
            raise Violation(f"replica_differs_{comp}", {"op": op, "where": where, "none_mismatch": True}, idx)
        if a is None:
            continue
        if a.shape != b.shape or a.dtype != b.dtype or not torch.equal(a, b):
            d = float((a - b).abs().max()) if a.shape == b.shape else None
            raise Violation(f"replica_differs_{comp}", {"op": op, "where": where, "max_abs_diff": d}, idx)


def _digests_alone(cfg, ops, conn):
    """Child process: the object alone, no decoy. Sends the exact bits of every answer."""
    try:
        from ..core import tdig
        st = Streams(1)
        b = bm.build(cfg, st.get("entropy"), faults=False)
        ex = bm.BMExec(b, EventLog(False))
        out = []
        for i, op in enumerate(ops):
            r = _call(ex, op, i, None)
            out.append({k: tdig(v) for k, v in r.items()})
        conn.send(out)
    except bm.CaseTooExpensive:
        conn.send("truncated")
    except BaseException as e:  # noqa
        conn.send("error: " + repr(e)[:200])
    finally:
        conn.close()


def _run_D(case, log, probes):
    from ..core import tdig
    cfg = case["config"]
    ops = [o for o in case["ops"]]
    ctx = mp.get_context("fork")
    parent, child = ctx.Pipe(duplex=False)
    p = ctx.Process(target=_digests_alone, args=(cfg, ops, child))
    p.start()
    child.close()
    # parent: decoy first (same entropy, other options), queried over the same intervals
    st = Streams(1)
    dcfg = dict(cfg)
    dcfg.update({k: v for k, v in case["decoy"].items() if k != "sweep"})
    if case["decoy"].get("sweep"):
        dcfg["dt"] = None
    decoy = bm.build(dcfg, st.get("entropy_decoy"), faults=False)
    exd = bm.BMExec(decoy, log)
    if case["decoy"].get("sweep"):
        n_sw = int(case["decoy"]["sweep"])
        d0, d1 = decoy.dom
        try:
            for k in range(n_sw):
                exd.raw(d0 + (d1 - d0) * k / n_sw, d0 + (d1 - d0) * (k + 1) / n_sw, False, False, None, ("decoy_sweep", k))
        except bm.CaseTooExpensive:
            pass
    b1 = bm.build(cfg, st.get("entropy"))
    e1 = bm.BMExec(b1, log)
    mine = []
    truncated = False
    try:
        for i, op in enumerate(ops):
            o2 = dict(op)
            if dcfg["levy"] == "none":
                o2["U"] = o2["A"] = False
            elif dcfg["levy"] == "space-time":
                o2["A"] = False
            _call(exd, o2, ("decoy", i), None)
            r = _call(e1, op, i, op.get("faults"))
            mine.append({k: tdig(v) for k, v in r.items()})
    except bm.CaseTooExpensive:
        truncated = True
    ref = parent.recv() if parent.poll(600) else "error: child timeout"
    p.join(10)
    if p.is_alive():
        p.kill()
    parent.close()
    if isinstance(ref, str):
        if ref == "truncated" or truncated:
            probes["truncated_designed_bound"] = 1
            return b1, e1
        from ..core import HarnessError
        raise HarnessError("experiment D child: " + ref)
    if truncated:
        probes["truncated_designed_bound"] = 1
        return b1, e1
    for i, (a, b) in enumerate(zip(ref, mine)):
        probes["pairs_compared"] += 1
        if a != b:
            comp = next(k for k in a if a[k] != b.get(k))
            raise Violation(f"depends_on_other_objects_{comp}", {"op": ops[i], "decoy": case["decoy"]}, i)
    if case.get("fresh_interp_hashseed") is not None:
        other = _fresh_interpreter(cfg, ops, case["fresh_interp_hashseed"])
        if other == "truncated":
            return b1, e1
        probes["expX_fresh_interpreter"] = 1
        for i, (a, b) in enumerate(zip(other, mine)):
            probes["pairs_compared"] += 1
            if a != b:
                comp = next(k for k in a if a[k] != b.get(k))
                raise Violation(f"depends_on_interpreter_state_{comp}", {"op": ops[i], "hashseed": case["fresh_interp_hashseed"]}, i)
    return b1, e1


def _fresh_interpreter(cfg, ops, hashseed):
    """Digests of every answer of (cfg, ops), evaluated in a new interpreter with PYTHONHASHSEED=hashseed."""
    import json
    import os
    import subprocess
    import sys
    from ..core import HarnessError
    here = os.path.dirname(os.path.dirname(os.path.dirname(os.path.abspath(__file__))))
    env = dict(os.environ, PYTHONHASHSEED=str(hashseed), OMP_NUM_THREADS="1", MKL_NUM_THREADS="1")
    plain = [{k: v for k, v in o.items() if k not in ("faults", "faults2")} for o in ops]
    try:
        r = subprocess.run([sys.executable, "-W", "ignore", os.path.join(here, "sim", "altproc.py")], cwd=here, env=env,
                           input=json.dumps({"cfg": cfg, "ops": plain}), capture_output=True, text=True, timeout=600)
    except subprocess.TimeoutExpired:
        raise HarnessError("experiment X: fresh interpreter timed out")
    lines = [ln for ln in r.stdout.splitlines() if ln.strip()]
    if r.returncode != 0 or not lines:
        raise HarnessError("experiment X: fresh interpreter failed: " + (r.stderr or "")[-300:])
    res = json.loads(lines[-1])
    if isinstance(res, str) and res != "truncated":
        raise HarnessError("experiment X child: " + res)
    return res


def _run_T(case, log, probes):
    """Two independent objects, two threads, seeded interleaving; reference = the same objects run sequentially."""
    import os
    import torch
    import trampoline
    import torchsde
    from .. import seams, threads
    from ..core import tdig
    cfg = case["config"]
    cfgs = [cfg, dict(cfg, entropy=case["entropy2"])]
    opss = [case["ops"], case["ops2"]]

    def sequential(i):
        b = bm.build(cfgs[i], Streams(1).get("entropy"), faults=False, monitor=False)
        ex = bm.BMExec(b, EventLog(False), monitor_budget=None)
        return [{k: tdig(v) for k, v in _call(ex, op, j, None).items()} for j, op in enumerate(opss[i])]

    ref = [sequential(0), sequential(1)]
    built = [bm.build(cfgs[i], Streams(1).get("entropy"), faults=False, monitor=False) for i in range(2)]
    exs = [bm.BMExec(built[i], EventLog(False), monitor_budget=None) for i in range(2)]
    real = seams._real_randn
    baton = threads.Baton(2, case["sched_seed"], case["rate"])

    def randn(*a, **k):
        me = baton.me()
        if me is not None:
            baton.yield_point(me, rate=0.5)  # pre-emption point at every normal draw
        return real(*a, **k)

    def work(i):
        def f():
            return [{k: tdig(v) for k, v in _call(exs[i], op, j, None).items()} for j, op in enumerate(opss[i])]
        return f

    dirs = [os.path.dirname(torchsde.__file__) + os.sep, os.path.dirname(trampoline.__file__) + os.sep]
    torch.randn = randn
    try:
        results = threads.run_interleaved([work(0), work(1)], baton, dirs)
    finally:
        torch.randn = real
    probes["thread_switches"] = baton.switches
    probes["preemption_points"] = baton.points
    log.add("T", baton.switches, baton.points)
    for i, (kind, val) in enumerate(results):
        if kind == "exc":
            if isinstance(val, (Violation, bm.CaseTooExpensive)):
                raise val
            raise Violation(f"exception:{type(val).__name__}@{bm._where(val)}", {"thread": i, "msg": str(val)[:200]}, i)
        for j, (a, b) in enumerate(zip(ref[i], val)):
            probes["pairs_compared"] += 1
            if a != b:
                comp = next(k for k in a if a[k] != b.get(k))
                raise Violation(f"interleaving_changes_{comp}", {"thread": i, "op": opss[i][j], "switches": baton.switches}, j)


def run_case(case, keep_log=False):
    try:
        return _run_case(case, keep_log)
    finally:
        bm.restore_env()


def _run_case(case, keep_log=False):
    cfg = case["config"]
    log = EventLog(keep_log)
    if case["exp"] == "T":
        probes = {k: 0 for k in PROBES}
        probes["expT"] = 1
        violation = None
        try:
            _run_T(case, log, probes)
        except bm.CaseTooExpensive:
            probes["truncated_designed_bound"] = 1
        except Violation as v:
            violation = v.to_json()
        stats = {"faults": {"thread_switch": probes["thread_switches"]}, "probes": probes,
                 "counters": {"ops": len(case["ops"]) + len(case["ops2"]), "queries": 2 * (len(case["ops"]) + len(case["ops2"])),
                              "sde_time": 0.0}, "states": []}
        out = {"violation": violation, "digest": log.digest(), "stats": stats}
        if keep_log:
            out["log"] = log.records
        return out
    if case["exp"] == "D":
        probes = {k: 0 for k in PROBES}
        probes["expD"] = 1
        violation = None
        b1 = e1 = None
        try:
            b1, e1 = _run_D(case, log, probes)
        except bm.CaseTooExpensive:
            probes["truncated_designed_bound"] = 1
        except Violation as v:
            violation = v.to_json()
        cs = cfg["cache_size"]
        if cs is not None and cs <= 3:
            probes["tiny_cache"] = 1
        fired = dict(b1.plan.fired) if b1 is not None and b1.cache is not None else {}
        stats = {"faults": fired, "probes": probes,
                 "counters": {"ops": 2 * len(case["ops"]), "queries": (e1.n_queries if e1 else 0) * 3,
                              "sde_time": (e1.sde_time if e1 else 0.0) * 3},
                 "states": []}
        out = {"violation": violation, "digest": log.digest(), "stats": stats}
        if keep_log:
            out["log"] = log.records
        return out
    st = Streams(1)
    b1 = bm.build(cfg, st.get("entropy"))
    b2 = bm.build(cfg, st.get("entropy2"))
    e1, e2 = bm.BMExec(b1, log), bm.BMExec(b2, log)
    probes = {k: 0 for k in PROBES}
    violation = None
    exp = case["exp"]
    probes["exp" + exp] = 1
    try:
        if exp == "A":
            for i, op in enumerate(case["ops"]):
                r1 = _call(e1, op, i, op.get("faults"))
                r2 = _call(e2, op, i, op.get("faults2"))
                _same(r1, r2, op, i, "A")
                probes["pairs_compared"] += 1
        else:
            for i, op in enumerate(case["ops"]):
                _call(e1, op, ("h1", i), op.get("faults"))
            for i, op in enumerate(case["ops2"]):
                _call(e2, op, ("h2", i), op.get("faults"))
            if case["ops"] != case["ops2"]:
                probes["expB_histories_differ"] = 1
            for i, op in enumerate(case["probes"]):
                if op.get("pre1"):
                    _call(e1, op["pre1"], ("pre1", i), None)
                    probes["one_sided_pre_probe_ops"] += 1
                r1 = _call(e1, op, ("p", i), op.get("faults"))
                r2 = _call(e2, op, ("p", i), None)
                _same(r1, r2, op, i, "B")
                probes["pairs_compared"] += 1
                if op["op"] == "q":
                    if op.get("og"):
                        probes["probe_offgrid"] += 1
                    if op["A"] and r1.get("A") is not None:
                        probes["probe_with_A"] += 1
                    if op["U"] and r1.get("U") is not None:
                        probes["probe_with_U"] += 1
        # C: another entropy gives another path (checked on the whole interval, or an interior piece if W is supplied)
        # (the neighbouring seed, and seeds that differ only above bit 32 / bit 40)
        e_other = [(cfg["entropy"] + 1) % (2 ** 31 - 1), cfg["entropy"] + 2 ** 32, cfg["entropy"] ^ (1 << 40)][case.get("other_entropy", 0) % 3]
        other = bm.build(cfg, st.get("entropy3"), faults=False, entropy_override=e_other)
        e3 = bm.BMExec(other, log)
        d0, d1 = b1.dom
        mid = d0 + (d1 - d0) * 0.5
        if cfg.get("gd") is not None:
            mid = round(mid, cfg["gd"])
        qa, qb = (d0, mid) if cfg.get("supply_W") else (d0, d1)
        if qa < qb:
            w1 = e1.raw(qa, qb, False, False, None, "C")["W"]
            w3 = e3.raw(qa, qb, False, False, None, "C")["W"]
            probes["entropy_differs_checked"] = 1
            if w1.numel() > 0 and torch.equal(w1, w3):
                raise Violation("entropy_ignored", {"qa": fx(qa), "qb": fx(qb)}, "C")
    except bm.CaseTooExpensive:
        probes["truncated_designed_bound"] = 1
    except Violation as v:
        violation = v.to_json()
    if cfg["front"] == "tree":
        probes["tree_front"] = 1
    if cfg["front"] == "reverse":
        probes["reverse_front"] = 1
    cs = cfg["cache_size"]
    if cs is not None and cs <= 3:
        probes["tiny_cache"] = 1
    states = []
    if violation is None and b1.interval is not None and b2.interval is not None:
        try:
            s1 = bm.tree_shape_hash(bm.dump_tree(b1.interval))
            s2 = bm.tree_shape_hash(bm.dump_tree(b2.interval))
            states = [s1 + s2]
            if exp == "B" and s1 != s2:
                probes["expB_trees_differ"] = 1
        except Exception:  # noqa
            pass
    fired = {k: b1.plan.fired[k] + b2.plan.fired[k] for k in b1.plan.fired}
    stats = {"faults": fired if b1.cache is not None else {"unavailable": 1}, "probes": probes,
             "counters": {"ops": len(case["ops"]) + len(case["ops2"]) + len(case["probes"]),
                          "queries": e1.n_queries + e2.n_queries, "sde_time": e1.sde_time + e2.sde_time},
             "states": states}
    out = {"violation": violation, "digest": log.digest(), "stats": stats}
    if keep_log:
        out["log"] = log.records
    return out


def nontrivial(stats):
    p = stats.get("probes", {})
    f = stats.get("faults", {})
    stress = sum(v for k, v in f.items() if k != "unavailable") or p.get("tiny_cache")
    if p.get("expT"):
        return bool(p.get("pairs_compared") and p.get("thread_switches", 0) >= 2)
    if not p.get("pairs_compared") or not stress:
        return False
    if p.get("expB") and not p.get("expB_histories_differ"):
        return False
    return True


def _case_lists(case):
    return case


def sample_of(case, stats):
    return {"config": case["config"], "exp": case["exp"], "decoy": case.get("decoy"), "n_ops": len(case["ops"]), "n_ops2": len(case["ops2"]),
            "n_probes": len(case["probes"]), "first_ops": case["ops"][:5], "first_probes": case["probes"][:5],
            "faults_fired": stats.get("faults"), "probes": stats.get("probes")}


def simplify(case):
    for key in OPS_KEYS:
        for i, op in enumerate(case[key]):
            for f in ("faults", "faults2", "rep", "pre1"):
                if op.get(f):
                    c = copy.deepcopy(case)
                    c[key][i].pop(f)
                    yield c
    cfg = case["config"]
    for key, val in (("size", [2]), ("dtype", "float64"), ("warmup", None), ("supply_W", False),
                     ("supply_H", False), ("pool_size", 8), ("cache_size", 45)):
        if cfg.get(key) != val:
            c = copy.deepcopy(case)
            c["config"][key] = val
            yield c
