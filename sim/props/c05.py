"""C05 — repeated queries return bit-identical values whatever happened in between.

Workload: the Brownian machine with a high share of re-queries, solver-shaped forward/backward
sweeps, adaptive-shaped sweeps, and (mode 'adjoint') real sdeint_adjoint runs whose backward pass
re-reads the forward noise. Faults: cache miss / drop / blackout, tiny caches, randomised warm-up so
the dependency tree is rebuilt between the first answer and the repeat.
Oracle: HistoryModel — first answer for (ta, tb) per component; torch.equal, no tolerance.
"""
import copy

import torch

from .. import bmachine as bm
from ..core import EventLog, Streams, Violation, canon_hash, fx, xf

PROP = "C05"
RUNS = {"quick": 1600, "thorough": 60000}
DEADLINE = {"quick": 200, "thorough": 3000}
RULE = ("case = (constructor config, explicit op list with attached cache faults) drawn from seeded named PRNG "
        "streams (swarm: interval, shape, dtype, Levy mode, cache size, dt hint, tol, tree mode, pool, warm-up knob, "
        "front end, fault rate); distinct = distinct hash of (config, ops); non-trivial = at least one repeat of an "
        "earlier query was compared AND (a cache fault fired OR natural eviction was possible (cache_size<=3) OR "
        "the tree was refined between answer and repeat)")
ASSUMPTIONS = ["torch.Generator/np.random.SeedSequence are deterministic functions of their seed",
               "cache faults are injected through a wrapper found by attribute scan; if absent the run uses natural "
               "eviction only (recorded)",
               "histories are sampled, not enumerated"]
REAL_VS_STUB = {"real": ["torchsde.BrownianInterval/BrownianPath/BrownianTree/ReverseBrownian", "trampoline",
                         "numpy SeedSequence", "torch kernels", "sdeint_adjoint (mode adjoint)"],
                "stub": ["value cache wrapped by FaultyCache (forwarding)", "np.random.randint (entropy seam)"]}
PROBES = ("misc_ops", "sibling_object", "repeat_compared", "repeat_after_fault", "repeat_after_refinement", "repeat_other_flags",
          "tiny_cache", "reverse_wrapper", "adjoint_backward_requery")
STATE_MEASURE = "distinct final interval-tree shapes (hash of display_binary_tree dump)"

ADJOINT_SHARE = 0.12
MIX = dict(bm.DEFAULT_MIX)
MIX.update(requery=6, sweep=3, adaptive=3, triple=1.5, sib=0.6)


def gen_case(seed, tier, idx):
    st = Streams(seed)
    rc = st.get("config")
    mode = "adjoint" if rc.random() < ADJOINT_SHARE else "machine"
    if mode == "adjoint":
        from . import c05_adjoint
        return c05_adjoint.gen_case(st, tier)
    cfg = bm.gen_config(rc)
    dom = domain(cfg)
    ro = st.get("ops")
    n = ro.choice([3, 6, 12, 25, 60, 120] if tier == "quick" else [3, 6, 12, 25, 60, 120, 300])
    ops = bm.gen_ops(ro, cfg, dom, n, MIX)
    # echo phase: re-issue a sample of the earlier queries in shuffled order
    prev = [o for o in ops if o["op"] in ("q", "point")]
    ro.shuffle(prev)
    for o in prev[:max(2, len(prev) // 3)]:
        e = dict(o)
        e.pop("faults", None)
        e["tag"] = "echo"
        ops.append(e)
    if cfg["front"] not in ("interval", "reverse"):
        ops = [o for o in ops if o["op"] != "sib"]
    if cfg["entropy"] is None and cfg["levy"] in ("davie", "foster") and len(cfg["size"]) >= 2:
        # default entropy: the whole interval with its Levy area, asked at the start and at the end
        w = bm._q(dom[0], dom[1], True, True, tag="whole")
        ops = [dict(w)] + ops + [dict(w)]
    bm.apply_warm_rep(cfg, ops)
    rate = bm.gen_fault_rate(st.get("faults"))
    bm.add_faults(st.get("faults"), ops, rate)
    return {"mode": "machine", "config": cfg, "ops": ops, "fault_rate": rate}


def domain(cfg):
    t0, t1 = xf(cfg["t0"]), xf(cfg["t1"])
    if cfg["front"] == "reverse":
        return (-t1, -t0)
    if cfg["front"] == "path":
        return (t0, t0 + 1.0)
    return (t0, t1)


class HistoryModel:
    """(ta, tb) -> first returned tensors per component."""

    def __init__(self):
        self.first = {}
        self.first_idx = {}

    def check(self, key, comp, value, idx):
        k = (key, comp)
        old = self.first.get(k)
        if old is None:
            if value is not None:
                self.first[k] = value.clone()
                self.first_idx[k] = idx
            return False
        if value is None:
            return False
        if old.shape != value.shape or old.dtype != value.dtype or not torch.equal(old, value):
            diff = None
            if old.shape == value.shape:
                diff = float((old - value).abs().max())
            raise Violation(f"repeat_differs_{comp}",
                            {"key": [k if isinstance(k, str) else fx(k) for k in key] if isinstance(key, tuple) else str(key),
                             "first_at_op": self.first_idx[k], "max_abs_diff": diff}, idx)
        return True


def run_case(case, keep_log=False):
    if case.get("mode") == "adjoint":
        from . import c05_adjoint
        return c05_adjoint.run_case(case, keep_log)
    cfg = case["config"]
    log = EventLog(keep_log)
    st = Streams(case.get("entropy_seed", 1))
    built = bm.build(cfg, st.get("entropy"))
    ex = bm.BMExec(built, log)
    hist = HistoryModel()
    probes = {k: 0 for k in PROBES}
    faults_since = {}
    refined_since = {}
    sib = None
    violation = None
    refinements = 0
    try:
        for i, op in enumerate(case["ops"]):
            if bm.apply_env(op, ex):
                probes["misc_ops"] += int(op["op"] == "misc")
                continue
            if op["op"] == "sib":
                if sib is None:
                    scfg = dict(cfg, front="interval")
                    if len(cfg["size"]) >= 1:
                        scfg["size"] = [1] + list(cfg["size"][1:]) if cfg["size"][0] != 1 else [2] + list(cfg["size"][1:])
                    else:
                        scfg["dtype"] = "float32" if cfg["dtype"] == "float64" else "float64"
                    scfg["supply_W"] = scfg["supply_H"] = False
                    sib = bm.BMExec(bm.build(scfg, st.get("entropy_sib"), faults=False), EventLog(False), monitor_budget=None)
                    probes["sibling_object"] = 1
                a_, b_ = xf(op["ta"]), xf(op["tb"])
                if cfg["front"] == "reverse":
                    a_, b_ = -b_, -a_
                try:
                    sib.raw(a_, b_, False, False, None, i)
                except bm.CaseTooExpensive:
                    pass
                continue
            td0 = getattr(built.interval, "_tree_dt", None) if built.interval is not None else None
            if op["op"] == "point":
                t = xf(op["t"])
                out = ex.point(t, op.get("faults"), i)
                if hist.check(("pt", t), "P", out, i):
                    probes["repeat_compared"] += 1
                continue
            ta, tb = xf(op["ta"]), xf(op["tb"])
            res = ex.raw(ta, tb, op["U"], op["A"], op.get("faults"), i, op.get("targ"))
            for _ in range(op.get("rep", 0)):
                again = ex.raw(ta, tb, op["U"], op["A"], None, i)
                for comp in ("W", "U", "A"):
                    if res[comp] is not None and not torch.equal(res[comp], again[comp]):
                        raise Violation(f"repeat_differs_{comp}", {"key": [op["ta"], op["tb"]], "immediate": True}, i)
            err = bm.shape_ok(cfg, res)
            if err:
                raise Violation("shape", {"msg": err}, i)
            key = (ta, tb)
            rep = False
            for comp in ("W", "U", "A"):
                rep = hist.check(key, comp, res[comp], i) or rep
            fired_now = sum(built.plan.fired.values())
            td1 = getattr(built.interval, "_tree_dt", None) if built.interval is not None else None
            if td1 != td0:
                refinements += 1
            if rep and refinements > refined_since.get(key, refinements):
                probes["repeat_after_refinement"] += 1
            refined_since.setdefault(key, refinements)
            if rep:
                probes["repeat_compared"] += 1
                if fired_now > faults_since.get(key, fired_now):
                    probes["repeat_after_fault"] += 1
                if op.get("tag") == "requery":
                    probes["repeat_other_flags"] += 1
            faults_since.setdefault(key, fired_now)
    except bm.CaseTooExpensive:
        probes["truncated_designed_bound"] = 1
    except Violation as v:
        violation = v.to_json()
    finally:
        bm.restore_env()
    fired = dict(built.plan.fired)
    cs = cfg["cache_size"]
    if cs is not None and cs <= 3:
        probes["tiny_cache"] = 1
    if cfg["front"] == "reverse":
        probes["reverse_wrapper"] = 1
    states = []
    if built.interval is not None and violation is None:
        try:
            states = [bm.tree_shape_hash(bm.dump_tree(built.interval))]
        except Exception:  # noqa
            states = []
    stats = {"faults": fired if built.cache is not None else {"unavailable": 1}, "probes": probes,
             "counters": {"ops": len(case["ops"]), "queries": ex.n_queries, "sde_time": ex.sde_time},
             "states": states}
    out = {"violation": violation, "digest": log.digest(), "stats": stats}
    if keep_log:
        out["log"] = log.records
    return out


def nontrivial(stats):
    p = stats.get("probes", {})
    f = stats.get("faults", {})
    return bool(p.get("repeat_compared") or p.get("adjoint_backward_requery")) and bool(
        sum(v for k, v in f.items() if k != "unavailable") or p.get("tiny_cache") or p.get("repeat_after_refinement")
        or p.get("adjoint_backward_requery"))


def sample_of(case, stats):
    if case.get("mode") == "adjoint":
        return {k: case[k] for k in case if k not in ("ops",)}
    return {"config": case["config"], "n_ops": len(case["ops"]), "first_ops": case["ops"][:8],
            "faults_fired": stats.get("faults"), "probes": stats.get("probes")}


def simplify(case):
    """Candidates for the minimiser: drop faults, drop flags, simplify config."""
    if case.get("mode") != "machine":
        return
    ops = case["ops"]
    for i, op in enumerate(ops):
        if op.get("faults"):
            c = copy.deepcopy(case)
            c["ops"][i].pop("faults")
            yield c
    for i, op in enumerate(ops):
        if op.get("rep"):
            c = copy.deepcopy(case)
            c["ops"][i].pop("rep")
            yield c
    for i, op in enumerate(ops):
        if op.get("U") or op.get("A"):
            c = copy.deepcopy(case)
            c["ops"][i]["U"] = False
            c["ops"][i]["A"] = False
            yield c
    cfg = case["config"]
    for key, val in (("size", []), ("size", [2]), ("dtype", "float64"), ("warmup", None), ("supply_W", False),
                     ("supply_H", False), ("pool_size", 8), ("cache_size", 45), ("levy", "none")):
        if cfg.get(key) != val:
            if key == "size" and cfg["front"] in ("path", "tree") and val == []:
                continue
            if key == "levy" and any(o.get("U") or o.get("A") for o in ops):
                continue
            c = copy.deepcopy(case)
            c["config"][key] = val
            yield c
