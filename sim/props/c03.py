"""C03 — a Brownian object is one path: increments and areas obey Chen's relation, under every
history, cache state, tree shape and front end.

Checked while the run proceeds: Chen triples found in the history (W additive; U(s,t)=U(s,u)+U(u,t)+(t-u)W(s,u)),
zero-length queries, antisymmetry of A, Levy-area Chen across the stored pieces (TreeModel from the public
display_binary_tree dump), front-end relations (BrownianPath/Tree point form, ReverseBrownian mirror).
Checked over the recorded history afterwards: PathModel — every answer equals the combination of the elementary
cells of the final partition.
"""
import copy

import torch

from .. import bmachine as bm
from ..core import EventLog, Streams, Violation, fx, xf
from .c05 import domain

PROP = "C03"
RUNS = {"quick": 1400, "thorough": 60000}
DEADLINE = {"quick": 200, "thorough": 3000}
RULE = ("case = (constructor config, explicit op list with cache faults) from seeded named PRNG streams (swarm over "
        "interval, shape, dtype, Levy mode, cache size, dt hint, tol, tree mode, pool, warm-up repetition, front end, "
        "fault rate); distinct = distinct hash of (config, ops); non-trivial = at least one Chen relation between "
        "three answers, a multi-piece Levy-area fold or a PathModel comparison over >= 2 cells was evaluated AND "
        "(a cache fault fired OR cache_size <= 3 OR the tree was refined mid-history)")
ASSUMPTIONS = ["display_binary_tree() is treated as public API (TreeModel); if its format changes the Levy-fold check is "
               "switched off and recorded, never alarmed",
               "relations are checked to 1e-10 relative (float64) / 2e-4 (float32), not bit-exactly",
               "with tol > 0 value oracles use times on the tolerance grid; off-grid times are issued for "
               "no-crash only", "histories are sampled, not enumerated"]
REAL_VS_STUB = {"real": ["torchsde.BrownianInterval/BrownianPath/BrownianTree/ReverseBrownian", "trampoline",
                         "numpy SeedSequence", "torch kernels"],
                "stub": ["value cache wrapped by FaultyCache (forwarding)", "np.random.randint (entropy seam)"]}
PROBES = ("misc_ops", "chen_triple", "chen_triple_U", "zero_len", "antisym", "levy_fold_multi", "levy_fold_3plus", "path_model_answers",
          "path_model_multicell", "point_form", "reverse_mirror", "refined_mid_history", "tiny_cache", "tol_grid",
          "supplied_W", "whole_equals_supplied")
STATE_MEASURE = "distinct final interval-tree shapes (hash of display_binary_tree dump)"

MIX = dict(bm.DEFAULT_MIX)
MIX.update(triple=6, requery=1.5, whole=1)


def gen_case(seed, tier, idx):
    st = Streams(seed)
    cfg = bm.gen_config(st.get("config"))
    dom = domain(cfg)
    ro = st.get("ops")
    n = ro.choice([3, 6, 12, 25, 60, 120] if tier == "quick" else [3, 6, 12, 25, 60, 120, 300])
    ops = bm.gen_ops(ro, cfg, dom, n, MIX)
    bm.apply_warm_rep(cfg, ops)
    rate = bm.gen_fault_rate(st.get("faults"))
    bm.add_faults(st.get("faults"), ops, rate)
    return {"config": cfg, "ops": ops, "fault_rate": rate}


def _close(x, y, cfg, scale):
    return bm.maxabs(x - y) <= bm.tol_for(cfg, max(1.0, scale))


class ChenChecker:
    """Finds (s,u,t) triples among the answers recorded so far and checks the relations."""

    def __init__(self, cfg, mirror=False):
        self.cfg = cfg
        self.mirror = mirror  # ReverseBrownian returns the base U: the relation holds in mirrored form
        self.ans = {}
        self.by_start = {}
        self.by_end = {}
        self.n_W = 0
        self.n_U = 0

    def _check(self, s, u, t, idx):
        a_st, a_su, a_ut = self.ans[(s, t)], self.ans[(s, u)], self.ans[(u, t)]
        W, W1, W2 = a_st["W"], a_su["W"], a_ut["W"]
        scale = max(bm.maxabs(W), bm.maxabs(W1), bm.maxabs(W2))
        self.n_W += 1
        if not _close(W, W1 + W2, self.cfg, scale):
            raise Violation("chen_W", {"s": fx(s), "u": fx(u), "t": fx(t), "err": bm.maxabs(W - W1 - W2)}, idx)
        if a_st["U"] is not None and a_su["U"] is not None and a_ut["U"] is not None:
            if self.mirror:
                rhs = a_su["U"] + a_ut["U"] + (u - s) * W2
                cross = (u - s) * W2
            else:
                rhs = a_su["U"] + a_ut["U"] + (t - u) * W1
                cross = (t - u) * W1
            scale = max(bm.maxabs(a_st["U"]), bm.maxabs(a_su["U"]), bm.maxabs(a_ut["U"]), bm.maxabs(cross))
            self.n_U += 1
            if not bm.maxabs(a_st["U"] - rhs) <= bm.tol_for(self.cfg, max(scale, (t - s) * 1.0)):
                raise Violation("chen_U", {"s": fx(s), "u": fx(u), "t": fx(t), "err": bm.maxabs(a_st["U"] - rhs)}, idx)

    def add(self, a, b, res, idx):
        if not a < b:
            return
        key = (a, b)
        old = self.ans.get(key)
        if old is not None:
            # keep the first answer; a U seen for the first time enables the U relations
            if old["U"] is None and res["U"] is not None:
                old["U"] = res["U"]
            else:
                return
        else:
            self.ans[key] = {"W": res["W"], "U": res["U"]}
            self.by_start.setdefault(a, set()).add(b)
            self.by_end.setdefault(b, set()).add(a)
        # new (a,b) as the whole: find u with (a,u) and (u,b)
        for u in sorted(self.by_start.get(a, ())):
            if a < u < b and (u, b) in self.ans:
                self._check(a, u, b, idx)
        # as the left part: (a,b)+(b,c)=(a,c)
        for c in sorted(self.by_start.get(b, ())):
            if (a, c) in self.ans:
                self._check(a, b, c, idx)
        # as the right part: (z,a)+(a,b)=(z,b)
        for z in sorted(self.by_end.get(a, ())):
            if (z, b) in self.ans:
                self._check(z, a, b, idx)


def levy_fold_check(ex, built, cfg, op, res, idx, probes):
    """A(query) must be the Chen combination of the A's of the stored pieces the query is made of."""
    if res["A"] is None or len(cfg["size"]) < 2 or built.interval is None:
        return
    ta, tb = xf(op["ta"]), xf(op["tb"])
    if not ta < tb:
        return
    rev = cfg["front"] == "reverse"
    a, b = (-tb, -ta) if rev else (ta, tb)
    try:
        root = bm.parse_tree(bm.dump_tree(built.interval))
    except Exception:  # noqa  (format changed: switch the check off, never alarm)
        probes["tree_dump_unavailable"] = 1
        return
    pieces = bm.canonical_pieces(root, a, b)
    if pieces is None:
        return
    if len(pieces) < 2:
        return
    W = A = None
    for (pa, pb) in pieces:
        qa, qb = (-pb, -pa) if rev else (pa, pb)
        r = ex.raw(qa, qb, False, True, None, idx)
        Wi, Ai = r["W"], r["A"]
        if W is None:
            W, A = Wi, Ai
        else:
            A = A + Ai + 0.5 * (W.unsqueeze(-1) * Wi.unsqueeze(-2) - Wi.unsqueeze(-1) * W.unsqueeze(-2))
            W = W + Wi
    probes["levy_fold_multi"] += 1
    if len(pieces) >= 3:
        probes["levy_fold_3plus"] += 1
    scale = max(bm.maxabs(A), bm.maxabs(res["A"]), bm.maxabs(W) ** 2)
    if not _close(A, res["A"], cfg, scale):
        raise Violation("levy_chen", {"ta": op["ta"], "tb": op["tb"], "pieces": len(pieces),
                                      "err": bm.maxabs(A - res["A"])}, idx)
    if not _close(W, res["W"], cfg, bm.maxabs(W)):
        raise Violation("levy_chen_W", {"ta": op["ta"], "tb": op["tb"], "pieces": len(pieces)}, idx)


def path_model(ex, cfg, answers, have_U, probes, mirror):
    """Every answer ever given must equal the combination of the elementary cells of the final partition."""
    pts = sorted({p for (a, b) in answers for p in (a, b)})
    if len(pts) < 2:
        return
    f64 = torch.float64
    P = [None]  # W(e0, e_k)
    UU = [None]  # U(e0, e_k)
    for k in range(len(pts) - 1):
        r = ex.raw(pts[k], pts[k + 1], have_U, False, None, "path_model")
        Wc = r["W"].to(f64)
        Uc = r["U"].to(f64) if r["U"] is not None else None
        if P[-1] is None:
            P = [torch.zeros_like(Wc)]
            UU = [torch.zeros_like(Wc)] if Uc is not None else [None]
        h = pts[k + 1] - pts[k]
        if Uc is not None:
            if mirror:
                # mirrored relation: U(e0,e_{k+1}) = U(e0,e_k) + U_cell + (e_k - e0) * W_cell
                UU.append(UU[-1] + Uc + (pts[k] - pts[0]) * Wc)
            else:
                UU.append(UU[-1] + Uc + h * P[-1])
        else:
            UU.append(None)
        P.append(P[-1] + Wc)
    index = {p: i for i, p in enumerate(pts)}
    for (a, b), res in answers.items():
        i, j = index[a], index[b]
        if j <= i:
            continue
        probes["path_model_answers"] += 1
        if j - i >= 2:
            probes["path_model_multicell"] += 1
        W = P[j] - P[i]
        scale = max(bm.maxabs(P[j]), bm.maxabs(P[i]), bm.maxabs(res["W"]))
        if not bm.maxabs(W - res["W"].to(f64)) <= bm.tol_for(cfg, max(1.0, scale)) * (10 if cfg["dtype"] == "float32" else 1):
            raise Violation("path_W", {"a": fx(a), "b": fx(b), "cells": j - i,
                                       "err": bm.maxabs(W - res["W"].to(f64))}, "path_model")
        if res["U"] is not None and UU[j] is not None:
            if mirror:
                # U(e0,e_j) = U(e0,e_i) + U(e_i,e_j) + (e_i - e0) W(e_i,e_j)
                U = UU[j] - UU[i] - (a - pts[0]) * W
                cross = (a - pts[0]) * W
            else:
                U = UU[j] - UU[i] - (b - a) * P[i]
                cross = (b - a) * P[i]
            scale = max(bm.maxabs(UU[j]), bm.maxabs(UU[i]), bm.maxabs(cross), bm.maxabs(res["U"]))
            if not bm.maxabs(U - res["U"].to(f64)) <= bm.tol_for(cfg, max(1.0, scale)) * (10 if cfg["dtype"] == "float32" else 1):
                raise Violation("path_U", {"a": fx(a), "b": fx(b), "cells": j - i,
                                           "err": bm.maxabs(U - res["U"].to(f64))}, "path_model")


def run_case(case, keep_log=False):
    cfg = case["config"]
    log = EventLog(keep_log)
    st = Streams(case.get("entropy_seed", 1))
    built = bm.build(cfg, st.get("entropy"))
    ex = bm.BMExec(built, log)
    rev = cfg["front"] == "reverse"
    chen = ChenChecker(cfg, mirror=rev)
    probes = {k: 0 for k in PROBES}
    answers = {}
    violation = None
    size = tuple(cfg["size"])
    have_U = cfg["levy"] != "none"
    n_fold = 0
    refinements = 0
    sign = {}
    t0, t1 = xf(cfg["t0"]), xf(cfg["t1"])
    try:
        for i, op in enumerate(case["ops"]):
            if bm.apply_env(op, ex):
                probes["misc_ops"] += int(op["op"] == "misc")
                continue
            td0 = getattr(built.interval, "_tree_dt", None) if built.interval is not None else None
            if op["op"] == "point":
                t = xf(op["t"])
                out = ex.point(t, op.get("faults"), i)
                if tuple(out.shape) != size:
                    raise Violation("shape", {"msg": f"point form shape {tuple(out.shape)}"}, i)
                ref = ex.raw(built.dom[0], t, False, False, None, i)["W"]
                if built.w0 is not None:
                    ref = ref + built.w0
                probes["point_form"] += 1
                if not _close(out, ref, cfg, max(bm.maxabs(out), bm.maxabs(ref))):
                    raise Violation("point_form", {"t": op["t"], "err": bm.maxabs(out - ref)}, i)
                continue
            ta, tb = xf(op["ta"]), xf(op["tb"])
            res = ex.raw(ta, tb, op["U"], op["A"], op.get("faults"), i, op.get("targ"))
            for _ in range(op.get("rep", 0)):
                ex.raw(ta, tb, op["U"], op["A"], None, i)
            err = bm.shape_ok(cfg, res)
            if err:
                raise Violation("shape", {"msg": err}, i)
            td1 = getattr(built.interval, "_tree_dt", None) if built.interval is not None else None
            if td1 != td0 and i > 0:
                refinements += 1
            offgrid = bool(op.get("og"))
            if ta == tb:
                probes["zero_len"] += 1
                for comp in ("W", "U", "A"):
                    if res[comp] is not None and bm.maxabs(res[comp]) != 0.0:
                        raise Violation(f"zero_len_{comp}", {"t": op["ta"]}, i)
                continue
            if res["A"] is not None:
                A = res["A"]
                if len(size) <= 1:
                    if bm.maxabs(A) != 0.0:
                        raise Violation("levy_nonzero_rank1", {"ta": op["ta"], "tb": op["tb"]}, i)
                else:
                    probes["antisym"] += 1
                    asym = bm.maxabs(A + A.transpose(-1, -2))
                    # exact up to the rounding of the piece-wise fold, whose intermediate terms are of size |W|^2
                    if asym > (1e-5 if cfg["dtype"] == "float32" else 1e-12) * max(bm.maxabs(A), bm.maxabs(res["W"]) ** 2, 1e-300):
                        raise Violation("antisym", {"ta": op["ta"], "tb": op["tb"], "asym": asym}, i)
            if offgrid:
                continue
            if (ta, tb) == (built.dom[0], built.dom[1]) and cfg.get("supply_W") and cfg["front"] in ("interval", "reverse"):
                probes["whole_equals_supplied"] += 1
                Wsup = bm._supplied(cfg, "W")
                if not (torch.equal(res["W"], Wsup) or (rev and torch.equal(res["W"], -Wsup))):
                    raise Violation("whole_not_supplied_W", {"err": bm.maxabs(res["W"] - Wsup)}, i)
            if rev and built.interval is not None:
                base = built.interval(-tb, -ta, return_U=op["U"], return_A=op["A"])
                base = base if isinstance(base, tuple) else (base,)
                names = ["W"] + (["U"] if op["U"] else []) + (["A"] if op["A"] else [])
                for nm, bv in zip(names, base):
                    rv = res[nm]
                    if rv is None or bv is None:
                        continue
                    probes["reverse_mirror"] += 1
                    if bm.maxabs(bv) == 0.0 and bm.maxabs(rv) == 0.0:
                        continue
                    if torch.equal(rv, bv):
                        sg = 1
                    elif torch.equal(rv, -bv):
                        sg = -1
                    else:
                        raise Violation(f"reverse_mirror_{nm}", {"ta": op["ta"], "tb": op["tb"]}, i)
                    if sign.setdefault(nm, sg) != sg:
                        raise Violation(f"reverse_sign_flips_{nm}", {"ta": op["ta"], "tb": op["tb"]}, i)
            if (ta, tb) not in answers:
                answers[(ta, tb)] = {"W": res["W"], "U": res["U"]}
            elif answers[(ta, tb)]["U"] is None and res["U"] is not None:
                answers[(ta, tb)]["U"] = res["U"]
            chen.add(ta, tb, res, i)
            if op["A"] and n_fold < 12:
                n_fold += 1
                levy_fold_check(ex, built, cfg, op, res, i, probes)
        if answers:
            path_model(ex, cfg, answers, have_U, probes, rev)
    except bm.CaseTooExpensive:
        probes["truncated_designed_bound"] = 1
    except Violation as v:
        violation = v.to_json()
    finally:
        bm.restore_env()
    probes["chen_triple"] = chen.n_W
    probes["chen_triple_U"] = chen.n_U
    probes["refined_mid_history"] = refinements
    cs = cfg["cache_size"]
    if cs is not None and cs <= 3:
        probes["tiny_cache"] = 1
    if xf(cfg["tol"]) > 0:
        probes["tol_grid"] = 1
    if cfg.get("supply_W"):
        probes["supplied_W"] = 1
    states = []
    if built.interval is not None and violation is None:
        try:
            states = [bm.tree_shape_hash(bm.dump_tree(built.interval))]
        except Exception:  # noqa
            states = []
    fired = dict(built.plan.fired)
    stats = {"faults": fired if built.cache is not None else {"unavailable": 1}, "probes": probes,
             "counters": {"ops": len(case["ops"]), "queries": ex.n_queries, "sde_time": ex.sde_time},
             "states": states}
    out = {"violation": violation, "digest": log.digest(), "stats": stats}
    if keep_log:
        out["log"] = log.records
    return out


def nontrivial(stats):
    p = stats.get("probes", {})
    f = stats.get("faults", {})
    checked = p.get("chen_triple", 0) + p.get("levy_fold_multi", 0) + p.get("path_model_multicell", 0)
    stress = sum(v for k, v in f.items() if k != "unavailable") or p.get("tiny_cache") or p.get("refined_mid_history")
    return bool(checked) and bool(stress)


def sample_of(case, stats):
    return {"config": case["config"], "n_ops": len(case["ops"]), "first_ops": case["ops"][:8],
            "faults_fired": stats.get("faults"), "probes": stats.get("probes")}


def simplify(case):
    from .c05 import simplify as s5
    c = dict(case)
    c["mode"] = "machine"
    for cand in s5(c):
        cand.pop("mode", None)
        yield cand
