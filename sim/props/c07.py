"""C07 — Brownian objects answer every valid query: no crash, bounded stack, bounded cache, bounded work.

Monitors during every service call (sys.setprofile hook, deterministic — no wall clock):
  (1) any exception from a documented configuration and in-range query        -> exception:<Type>@<function>
  (2) Python call depth above the call site <= DEPTH_BOUND for every call       -> depth
  (3) entries held by the value cache <= cache_size after every op              -> cache_bound
  (4) call events per call <= EVENTS0 + EVENTS_PER_NODE * N_designed            -> budget   (bounded liveness;
      N_designed = size the dependency tree is designed to have for the history's average step; a hang detector
      calibrated >= 30x above the most expensive legitimate call seen, not a performance assertion)
Modes: machine (random adversarial histories), sweep (solver-shaped: N consecutive steps forward then backward, grids
accumulated in float32/float64 with a clipped last step), sdeint (the real solver loop on the default / Tree / Path
Brownian motion).
"""
import copy
import math

import numpy as np
import torch

from .. import bmachine as bm
from .. import seams, stubs
from ..core import EventLog, SimBudgetExceeded, Streams, Violation, fx, xf
from .c05 import domain

PROP = "C07"
RUNS = {"quick": 700, "thorough": 20000}
DEADLINE = {"quick": 240, "thorough": 3300}
BATCH = {"quick": 3, "thorough": 6}
DEPTH_BOUND = 150
EVENTS0 = bm.EVENTS0
EVENTS_PER_NODE = bm.EVENTS_PER_NODE
RULE = ("case = one of {machine: config + explicit op list with cache faults; sweep: config + (N, grid dtype, step "
        "divisor, backward); sdeint: solver + SDE spec + (steps, step divisor, Brownian front)} from seeded named PRNG "
        "streams; distinct = distinct hash of the case; non-trivial = at least 100 service calls were monitored (so the "
        "step-size estimator left its warm-up) OR a sub-tolerance / zero-length-after-rounding / 1-ulp query was "
        "answered OR cache_size <= 3")
ASSUMPTIONS = ["cost proportional to the *designed* size of the dependency tree is by design; generated histories keep "
               "that size <= 8192 (a history whose average step would exceed it is truncated, counted, never judged)",
               "depth and work are measured in Python call events above the call site; C-level recursion is not seen",
               "the cache object is found by attribute scan; if absent monitor (3) is off (recorded)",
               "histories are sampled, not enumerated"]
REAL_VS_STUB = {"real": ["torchsde.BrownianInterval/BrownianPath/BrownianTree", "sdeint + solvers (mode sdeint)",
                         "trampoline", "numpy SeedSequence", "torch kernels"],
                "stub": ["value cache wrapped by FaultyCache (forwarding)", "np.random.randint (entropy seam)",
                         "SDE zoo drift/diffusion (mode sdeint)"]}
PROBES = ("misc_ops", "retained_tensor_walks", "calls_monitored", "mode_machine", "mode_sweep", "mode_sdeint", "sweep_ge_1000", "backward_sweep",  # sweep_ge_10000: thorough tier only
          "clipped_last_step_le_4ulp", "sub_tolerance_query", "zero_len_after_rounding", "cache0", "tiny_cache",
          "refinement_fired", "sdeint_default_bm", "sdeint_tree_or_path", "dt_hint_far_off", "f32_grid")
STATE_MEASURE = "distinct final interval-tree shapes (hash of display_binary_tree dump; machine and small sweeps only)"

MIX = dict(bm.DEFAULT_MIX)
MIX.update(tiny=2.5, offgrid=3, zero=1.5, cluster=3, nested=2, sweep=3, adaptive=3, requery=1, triple=0.5)


def gen_case(seed, tier, idx):
    st = Streams(seed)
    rc = st.get("config")
    mode = bm._pick(rc, [("machine", 5), ("sweep", 3), ("sdeint", 2)])
    huge = rc.random() < 0.06
    if mode == "machine":
        cfg = bm.gen_config(rc)
        if huge and cfg["front"] in ("interval", "reverse") and xf(cfg["tol"]) == 0:
            # time origin so large that consecutive representable times are 2^-8 apart
            cfg["t0"], cfg["t1"] = fx(2.0 ** 44), fx(2.0 ** 44 + 64.0)
            if cfg["dt"] is not None:
                cfg["dt"] = fx(rc.choice([0.25, 2.0 ** -8, 1e-3]))
        dom = domain(cfg)
        ro = st.get("ops")
        n = ro.choice([1, 5, 20, 60, 150] if tier == "quick" else [1, 5, 20, 60, 150, 400])
        ops = bm.gen_ops(ro, cfg, dom, n, MIX)
        bm.apply_warm_rep(cfg, ops)
        rate = bm.gen_fault_rate(st.get("faults"))
        bm.add_faults(st.get("faults"), ops, rate)
        return {"mode": "machine", "config": cfg, "ops": ops}
    if mode == "sweep":
        cfg = bm.gen_config(rc, fronts=(("interval", 6), ("tree", 1), ("path", 1), ("reverse", 1)), allow_f32=True)
        cs = cfg["cache_size"]
        tiny_cache = cs is not None and cs <= 3
        if tier == "quick":
            n = rc.choice([105, 130, 160] if tiny_cache else [120, 400, 1000, 3000])
        else:
            n = rc.choice([120, 250, 400] if tiny_cache else [120, 400, 1000, 3000, 10000, 30000, 100000])
        if cfg["halfway"]:
            n = min(n, 1000)
        if huge and cfg["front"] in ("interval", "reverse") and xf(cfg["tol"]) == 0 and not cfg["halfway"]:
            cfg["t0"], cfg["t1"] = fx(2.0 ** 44), fx(2.0 ** 44 + 2.0)
            n = min(n, 512)  # 2 / 2^-8 representable steps
        t0, t1 = xf(cfg["t0"]), xf(cfg["t1"])
        if cfg["front"] == "path":
            t1 = t0 + 1.0
        # dt hint: none / exact / far off
        hint = bm._pick(rc, [("none", 3), ("exact", 2), ("far", 1)])
        if cfg["halfway"] or cfg["front"] in ("tree", "path"):
            hint = "none"
        h = (t1 - t0) / n
        if hint == "none":
            cfg["dt"] = None
        elif hint == "exact":
            cfg["dt"] = fx(h)
        else:
            cfg["dt"] = fx(h * rc.choice([30.0, 0.2]))
        cfg["warmup"] = None
        if cfg["dt"] is not None:
            # keep the designed tree size bounded (cost proportional to it is by design)
            c = bm.designed_c(cfg)
            while (t1 - t0) / (0.8 * xf(cfg["dt"]) * c) > 8192:
                cfg["dt"] = fx(xf(cfg["dt"]) * 2)
        elif (t1 - t0) / (0.8 * h * bm.designed_c(cfg)) > 8192:
            n = max(100, int((8192 * 0.8 * bm.designed_c(cfg))))
        return {"mode": "sweep", "config": cfg, "n": n, "grid": rc.choice(["float64", "float64", "float32"]),
                "div": rc.choice([1.0, 1.0, 1.0000001, 1.000000001, 1.0 + 2 ** -40]), "backward": rc.random() < 0.7,
                "tail_ulps": rc.choice([0, 0, 0, 1, 2, 4]),
                "U": cfg["levy"] != "none" and rc.random() < 0.5, "A": cfg["levy"] in ("davie", "foster") and rc.random() < 0.5}
    # sdeint
    rs = st.get("sde")
    solver = stubs.gen_solver(rs)
    if rs.random() < 0.6:
        solver.update(method="euler", sde_type="ito", levy="none", options=None,
                      noise_type=rs.choice(["diagonal", "general", "additive", "scalar"]))
    spec = stubs.gen_sde_spec(rs, solver)
    front = bm._pick(rs, [("default", 5), ("tree", 1.5), ("path", 1.5), ("interval_cache0", 1)])
    if solver["levy"] != "none" and front in ("tree", "path"):
        front = "default"
    steps = rs.choice([20, 150, 150, 1000, 4000] if tier == "quick" else [20, 150, 1000, 4000, 20000, 60000])
    if front == "tree":
        steps = min(steps, 1000)
    if front == "interval_cache0":
        steps = min(steps, 300)
    return {"mode": "sdeint", "tail_ulps": rs.choice([0, 0, 1, 2, 4]), "solver": solver, "sde": spec, "front": front, "steps": steps,
            "dtype": rs.choice(["float64", "float64", "float32"]),
            "div": rs.choice([1.0, 1.0000001, 1.000000001, 1.0 + 2 ** -40, 1.0 + 2 ** -50]),
            "t0": fx(rs.choice([0.0, 0.0, -1.0, 3.0])), "span": fx(rs.choice([1.0, 1.0, 0.5, 10.0])),
            "n_out": rs.choice([2, 2, 5]), "entropy_seed": rs.randrange(1 << 30)}


# ----------------------------------------------------------------------------------------


class Mon:
    """Monitored service calls."""

    def __init__(self, built, log, cfg):
        self.built = built
        self.cfg = cfg
        self.ex = bm.BMExec(built, log)
        self.calls = 0
        self.max_depth = 0
        self.max_events = 0
        self.cs = cfg["cache_size"]
        self.span = built.dom[1] - built.dom[0]

    def call(self, ta, tb, U, A, faults, idx, targ=None):
        res = self.ex.raw(ta, tb, U, A, faults, idx, targ)
        self.calls += 1
        if self.ex.max_depth > DEPTH_BOUND:
            raise Violation("depth", {"depth": self.ex.max_depth, "ta": fx(ta), "tb": fx(tb)}, idx)
        c = self.built.cache
        if c is not None and self.cs is not None and c.entries() > self.cs:
            raise Violation("cache_bound", {"entries": c.entries(), "cache_size": self.cs}, idx)
        return res

    def check_retained(self, idx, probes):
        """Values the object keeps alive outside its bounded cache are cached entries in all but name (added after
        C07-sibling_noise_memo, wave 6): the floating-point tensors reachable from the object are counted by walking its
        attributes. On the unchanged tree that number is (1 or 2) x cache entries + 2."""
        if self.cs is None:
            return
        n = seams.retained_tensors(self.built.front)
        probes["retained_tensor_walks"] += 1
        if n > 3 * self.cs + 16:
            raise Violation("retained_values_unbounded", {"tensors_reachable_from_object": n, "cache_size": self.cs,
                                                           "bound": 3 * self.cs + 16, "calls": self.calls}, idx)


def sweep_grid(t0, t1, n, grid, div, tail_ulps=0):
    """Solver-shaped time grid: t_{k+1} = min(t_k + dt, t1) accumulated in the given precision. With tail_ulps = k
    the equal steps end k ulp short of t1, so that the clipped last step is k ulp long."""
    if tail_ulps:
        from ..core import ulp_next
        x = ulp_next(t1, -tail_ulps)
        pts = [t0 + (x - t0) * i / n for i in range(n)] + [x, t1]
        return [p for i, p in enumerate(pts) if i == 0 or p > pts[i - 1]]
    dt = (t1 - t0) / n / div
    if grid == "float32":
        cur = np.float32(t0)
        end = np.float32(t1)
        step = np.float32(dt)
        pts = [float(cur)]
        while cur < end and len(pts) < 2 * n + 10:
            nxt = min(np.float32(cur + step), end)
            if nxt <= cur:
                break
            pts.append(float(nxt))
            cur = nxt
    else:
        cur = t0
        pts = [cur]
        while cur < t1 and len(pts) < 2 * n + 10:
            nxt = min(cur + dt, t1)
            if nxt <= cur:
                break
            pts.append(nxt)
            cur = nxt
    return pts


def _run_machine(case, log, probes):
    cfg = case["config"]
    built = _build_monitored(cfg)
    mon = Mon(built, log, cfg)
    tol = xf(cfg["tol"])
    for i, op in enumerate(case["ops"]):
        if bm.apply_env(op, mon.ex):
            probes["misc_ops"] += int(op["op"] == "misc")
            continue
        td0 = getattr(built.interval, "_tree_dt", None) if built.interval is not None else None
        if op["op"] == "point":
            mon.ex.point(xf(op["t"]), op.get("faults"), i)
            continue
        ta, tb = xf(op["ta"]), xf(op["tb"])
        res = mon.call(ta, tb, op["U"], op["A"], op.get("faults"), i, op.get("targ"))
        for _ in range(op.get("rep", 0)):
            mon.call(ta, tb, op["U"], op["A"], None, i)
        err = bm.shape_ok(cfg, res)
        if err:
            raise Violation("shape", {"msg": err}, i)
        for comp in ("W", "U", "A"):
            if res[comp] is not None and not bool(torch.isfinite(res[comp]).all()):
                raise Violation(f"nonfinite_{comp}", {"ta": op["ta"], "tb": op["tb"]}, i)
        if tol > 0 and ta < tb and (tb - ta) < tol:
            probes["sub_tolerance_query"] += 1
        if op.get("tag") == "ulp":
            probes["sub_tolerance_query"] += 1
        td1 = getattr(built.interval, "_tree_dt", None) if built.interval is not None else None
        if td1 != td0:
            probes["refinement_fired"] += 1
    mon.check_retained("end", probes)
    return built, mon


def _build_monitored(cfg):
    built = bm.build(cfg, Streams(1).get("entropy"))
    if built.ctor_depth > DEPTH_BOUND:
        raise Violation("depth", {"depth": built.ctor_depth, "where": "constructor"}, "ctor")
    return built


def _run_sweep(case, log, probes):
    cfg = case["config"]
    built = _build_monitored(cfg)
    mon = Mon(built, log, cfg)
    d0, d1 = built.dom
    pts = sweep_grid(d0, d1, case["n"], case["grid"], case["div"], case.get("tail_ulps", 0))
    steps = list(zip(pts[:-1], pts[1:]))
    if steps and (steps[-1][1] - steps[-1][0]) <= 4 * math.ulp(steps[-1][1]):
        probes["clipped_last_step_le_4ulp"] += 1
    seq = steps + (list(reversed(steps)) if case["backward"] else [])
    for i, (a, b) in enumerate(seq):
        td0 = getattr(built.interval, "_tree_dt", None) if built.interval is not None else None
        res = mon.call(a, b, case["U"], case["A"], None, i)
        if not bool(torch.isfinite(res["W"]).all()):
            raise Violation("nonfinite_W", {"ta": fx(a), "tb": fx(b)}, i)
        td1 = getattr(built.interval, "_tree_dt", None) if built.interval is not None else None
        if td1 != td0:
            probes["refinement_fired"] += 1
    mon.check_retained("end", probes)
    n = len(steps)
    if n >= 1000:
        probes["sweep_ge_1000"] = 1
    if n >= 10000:
        probes["sweep_ge_10000"] = 1
    if case["backward"]:
        probes["backward_sweep"] = 1
    if case["grid"] == "float32":
        probes["f32_grid"] = 1
    if cfg["dt"] is not None and not (0.5 <= xf(cfg["dt"]) / ((d1 - d0) / case["n"]) <= 2):
        probes["dt_hint_far_off"] = 1
    return built, mon


def _run_sdeint(case, log, probes):
    import torchsde
    dtype = case["dtype"]
    tdt = stubs.DT[dtype]
    sde = stubs.make_sde(case["sde"], dtype)
    y0 = stubs.make_y0(case["sde"], dtype)
    t0 = xf(case["t0"])
    t1 = t0 + xf(case["span"])
    steps = case["steps"]
    dt = (t1 - t0) / steps / case["div"]
    if case["front"] == "path" and t1 - t0 > 1.0:  # BrownianPath covers [t0, t0+1] only
        t1 = t0 + 1.0
        dt = 1.0 / steps / case["div"]
    k = case.get("tail_ulps", 0)
    if k:
        # the solver's own grid recurrence (same dtype, same arithmetic): horizon = k ulp beyond the last full step
        cur = torch.tensor(t0, dtype=tdt)
        for _ in range(steps - 1):
            cur = cur + dt
        t1 = float(cur)
        inf = torch.tensor(math.inf, dtype=tdt)
        for _ in range(k):
            cur = torch.nextafter(cur, inf)
        t1 = float(cur)
    ts = torch.linspace(t0, t1, case["n_out"], dtype=tdt)
    ts[-1] = t1
    B, m = case["sde"]["batch"], case["sde"]["m"]
    solver = case["solver"]
    st = Streams(case["entropy_seed"])
    front = case["front"]
    rec = None
    with seams.entropy_seam(st.get("entropy")):
        if front == "default":
            bmo = None
            probes["sdeint_default_bm"] = 1
        elif front == "tree":
            inner = torchsde.BrownianTree(t0=float(ts[0]), w0=torch.zeros(B, m, dtype=tdt), t1=float(ts[-1]),
                                          entropy=case["entropy_seed"], tol=(t1 - t0) * 1e-7)
            bmo = rec = stubs.make_recorder(inner)
            probes["sdeint_tree_or_path"] = 1
        elif front == "path":
            # BrownianPath covers [t0, t0+1] only
            inner = torchsde.BrownianPath(t0=float(ts[0]), w0=torch.zeros(B, m, dtype=tdt))
            bmo = rec = stubs.make_recorder(inner)
            probes["sdeint_tree_or_path"] = 1
        else:
            inner = torchsde.BrownianInterval(t0=float(ts[0]), t1=float(ts[-1]), size=(B, m), dtype=tdt,
                                              entropy=case["entropy_seed"], cache_size=0,
                                              levy_area_approximation=solver["levy"])
            bmo = rec = stubs.make_recorder(inner)
            probes["cache0"] = 1
        budget = EVENTS0 + 8000 * steps + EVENTS_PER_NODE * 8192
        if front == "interval_cache0":
            budget += 50_000 * steps  # cache_size=0 recomputes the whole ancestor chain on every request (by design)
        with seams.CallMonitor(budget, 180.0 + 0.2 * steps) as mon:
            try:
                with torch.no_grad():
                    kw = {}
                    if solver["options"]:
                        kw["options"] = dict(solver["options"])
                    ys = torchsde.sdeint(sde, y0, ts, bm=bmo, method=solver["method"], dt=dt, **kw)
            except SimBudgetExceeded as e:
                raise Violation("stalled" if str(e).startswith("stalled") else "budget", {"where": "sdeint", "msg": str(e)}, "sdeint")
            except RecursionError as e:
                raise Violation(f"exception:RecursionError@{bm._where(e)}", {"where": "sdeint"}, "sdeint")
            except Exception as e:  # noqa
                raise Violation(f"exception:{type(e).__name__}@{bm._where(e)}", {"where": "sdeint", "msg": str(e)[:200]},
                                "sdeint")
    if mon.max_depth > DEPTH_BOUND:
        raise Violation("depth", {"depth": mon.max_depth, "where": "sdeint"}, "sdeint")
    if tuple(ys.shape) != (case["n_out"], B, case["sde"]["d"]):
        raise Violation("shape", {"msg": f"ys {tuple(ys.shape)}"}, "sdeint")
    log.add("ys", bm.tdig(ys))
    if rec is not None and rec.trace:
        a, b = rec.trace[-1][0], rec.trace[-1][1]
        if b is not None and (b - a) <= 4 * math.ulp(b):
            probes["clipped_last_step_le_4ulp"] += 1
    return mon, steps


def run_case(case, keep_log=False):
    try:
        return _run_case(case, keep_log)
    finally:
        bm.restore_env()


def _run_case(case, keep_log=False):
    log = EventLog(keep_log)
    probes = {k: 0 for k in PROBES}
    violation = None
    built = mon = None
    counters = {"ops": 0, "queries": 0, "sde_time": 0.0}
    max_depth = max_events = 0
    mode = case["mode"]
    probes["mode_" + mode] = 1
    try:
        if mode == "machine":
            built, mon = _run_machine(case, log, probes)
        elif mode == "sweep":
            built, mon = _run_sweep(case, log, probes)
        else:
            m, steps = _run_sdeint(case, log, probes)
            probes["calls_monitored"] = steps
            counters = {"ops": steps, "queries": steps, "sde_time": xf(case["span"])}
            max_depth, max_events = m.max_depth, m.events
    except bm.CaseTooExpensive:
        probes["truncated_designed_bound"] = 1
    except Violation as v:
        violation = v.to_json()
    states = []
    faults = {}
    if mon is not None and mode != "sdeint":
        probes["calls_monitored"] = mon.calls
        counters = {"ops": mon.calls, "queries": mon.ex.n_queries, "sde_time": mon.ex.sde_time}
        max_depth, max_events = mon.ex.max_depth, mon.ex.max_events
        faults = dict(built.plan.fired) if built.cache is not None else {"unavailable": 1}
        cs = case["config"]["cache_size"]
        if cs == 0:
            probes["cache0"] = 1
        if cs is not None and cs <= 3:
            probes["tiny_cache"] = 1
        if violation is None and built.interval is not None and mon.calls <= 1000:
            try:
                states = [bm.tree_shape_hash(bm.dump_tree(built.interval))]
            except Exception:  # noqa
                pass
    if mode == "machine":
        tol = xf(case["config"]["tol"])
        if tol > 0:
            for op in case["ops"]:
                if op["op"] == "q" and op.get("og"):
                    ta, tb = xf(op["ta"]), xf(op["tb"])
                    gd = -int(math.log10(tol)) if tol > 0 else None
                    if ta != tb and round(ta, gd) == round(tb, gd):
                        probes["zero_len_after_rounding"] += 1
    stats = {"faults": faults, "probes": probes, "counters": counters, "states": states,
             "max_depth": max_depth, "max_events": max_events,
             "maxima": {"python_call_depth_in_one_call": max_depth, "call_events_in_one_call": max_events}}
    out = {"violation": violation, "digest": log.digest(), "stats": stats}
    if keep_log:
        out["log"] = log.records
    return out


def nontrivial(stats):
    p = stats.get("probes", {})
    return bool(p.get("calls_monitored", 0) >= 100 or p.get("sub_tolerance_query") or p.get("zero_len_after_rounding")
                or p.get("tiny_cache"))


def sample_of(case, stats):
    c = {k: v for k, v in case.items() if k != "ops"}
    if "ops" in case:
        c["n_ops"] = len(case["ops"])
        c["first_ops"] = case["ops"][:6]
    c["max_depth"] = stats.get("max_depth")
    c["max_events_in_one_call"] = stats.get("max_events")
    c["probes"] = stats.get("probes")
    return c


def simplify(case):
    if case["mode"] == "machine":
        from .c05 import simplify as s5
        for cand in s5(case):
            yield cand
        return
    if case["mode"] == "sweep":
        n = case["n"]
        for n2 in (n // 2, n // 4 * 3, n - 1):
            if 1 <= n2 < n:
                c = copy.deepcopy(case)
                c["n"] = n2
                yield c
        for key, val in (("backward", False), ("U", False), ("A", False), ("grid", "float64"), ("div", 1.0), ("tail_ulps", 0)):
            if case.get(key) != val:
                c = copy.deepcopy(case)
                c[key] = val
                yield c
        cfg = case["config"]
        for key, val in (("size", [2]), ("dtype", "float64"), ("supply_W", False), ("supply_H", False), ("pool_size", 8)):
            if cfg.get(key) != val:
                c = copy.deepcopy(case)
                c["config"][key] = val
                yield c
        return
    n = case["steps"]
    for n2 in (n // 2, n - 1):
        if 1 <= n2 < n:
            c = copy.deepcopy(case)
            c["steps"] = n2
            yield c
    for key, val in (("n_out", 2), ("dtype", "float64"), ("div", 1.0), ("tail_ulps", 0)):
        if case.get(key) != val:
            c = copy.deepcopy(case)
            c[key] = val
            yield c


def WARMUP_SKIP(case):
    """Parent-process warm-up runs only the cheap cases."""
    return (case["mode"] == "sweep" and case["n"] > 400) or (case["mode"] == "sdeint" and case["steps"] > 200)


def _cfg(**kw):
    c = {"front": "interval", "t0": fx(0.0), "t1": fx(1.0), "size": [2], "dtype": "float64", "levy": "none",
         "cache_size": 45, "dt": None, "tol": fx(0.0), "halfway": False, "pool_size": 8, "entropy": 0,
         "supply_W": False, "supply_H": False, "warmup": None, "gd": None}
    c.update(kw)
    return c


def directed(tier):
    """Explicit regression inputs, always run first: the minimal failing inputs of the repaired defects D2-D6."""
    sde = {"kind": "linear", "noise_type": "diagonal", "sde_type": "ito", "d": 1, "m": 1, "seed": 1, "stiff": 1.0, "batch": 2}
    eul = {"method": "euler", "sde_type": "ito", "noise_type": "diagonal", "levy": "none", "options": None}
    out = [
        # D2: long run of consecutive steps, default cache (depth monitor), and tiny cache with 1000 steps
        {"mode": "sweep", "config": _cfg(), "n": 3000, "grid": "float64", "div": 1.0, "backward": True, "U": False, "A": False, "tail_ulps": 0},
        {"mode": "sweep", "config": _cfg(cache_size=2), "n": 400, "grid": "float64", "div": 1.0, "backward": False, "U": False, "A": False, "tail_ulps": 0},
        # D3: cache_size=0 with a dt hint, and without one but > 100 queries
        {"mode": "machine", "config": _cfg(cache_size=0, dt=fx(0.01)), "ops": [{"op": "q", "ta": fx(0.1), "tb": fx(0.2), "U": False, "A": False}]},
        {"mode": "sweep", "config": _cfg(cache_size=0), "n": 150, "grid": "float64", "div": 1.0, "backward": False, "U": False, "A": False, "tail_ulps": 0},
        # D4: end points that round to the same time, dyadic tree
        {"mode": "machine", "config": _cfg(tol=fx(1e-3), halfway=True, gd=3),
         "ops": [{"op": "q", "ta": fx(0.1234), "tb": fx(0.12349), "U": False, "A": False, "og": True}]},
        {"mode": "machine", "config": _cfg(tol=fx(5e-4), halfway=True, gd=2),
         "ops": [{"op": "q", "ta": fx(0.1236), "tb": fx(0.1244), "U": False, "A": False, "og": True}]},
        # D5: piece length below the tolerance
        {"mode": "machine", "config": _cfg(tol=fx(1e-3), dt=fx(1e-6), gd=3),
         "ops": [{"op": "q", "ta": fx(0.1), "tb": fx(0.2), "U": False, "A": False}]},
        # D6: a very short clipped last step as the 101st query of sdeint with its default Brownian motion
        {"mode": "sdeint", "tail_ulps": 0, "solver": eul, "sde": sde, "front": "default", "steps": 100, "dtype": "float64",
         "div": 1.000000001, "t0": fx(0.0), "span": fx(1.0), "n_out": 2, "entropy_seed": 5},
        {"mode": "sdeint", "tail_ulps": 1, "solver": eul, "sde": sde, "front": "default", "steps": 101, "dtype": "float64",
         "div": 1.0, "t0": fx(0.0), "span": fx(1.0), "n_out": 2, "entropy_seed": 6},
        # (seeded change C07-count_empty_queries) more than 100 empty queries before the first real one
        {"mode": "machine", "config": _cfg(),
         "ops": [{"op": "q", "ta": fx(0.25), "tb": fx(0.25), "U": False, "A": False, "tag": "zero", "rep": 150},
                 {"op": "q", "ta": fx(0.25), "tb": fx(0.26), "U": False, "A": False}]},
    ]
    if tier == "thorough":
        out.append({"mode": "sweep", "config": _cfg(), "n": 30000, "grid": "float64", "div": 1.0, "backward": True,
                    "U": False, "A": False, "tail_ulps": 0})
    for c in out:
        c.update(property=PROP, directed=True, tier=tier)
    return out
