"""C14, mode 'backward': the adaptive controller of the *backward* (adjoint) solve.

`sdeint_adjoint(..., adjoint_adaptive=True)` runs one adaptive integration per output interval, backwards in time, on
the augmented adjoint SDE, with one solver object reused for all of them. The controller's guarantees are the same as
for a forward solve; here they are judged from the request stream the backward pass sends through `ReverseBrownian`
to the recording proxy (mirrored into reversed time: a request (x, y) of the proxy is the trial (-y, -x)), together with
the error values and step-size decisions recorded at the `adaptive_stepping` seam:

  the trials tile [-T, -t0] contiguously with a forced boundary at every -ts[i]; a < b; no trial shorter than dt_min
  unless it ends at a boundary (a clipped step); err <= 1 => accepted; err > 1 => rejected unless the controller's new
  step size is clamped to dt_min; a rejected trial's retry is not longer; the pass ends exactly at -t0; the number of
  trials stays below the bound that follows from 'every reject shrinks by >= 6%, every accept advances >= dt_min'.

No value model here (the forward check has one); what is decided is the schedule. Error signal: real, or the scripted
adversary (then also used by the forward pass if that is adaptive too).
"""
import math

import torch

from .. import bmachine as bm
from .. import seams, stubs
from ..core import EventLog, SimBudgetExceeded, SkipCase, Violation, fx, tdig, xf


def gen_case(st, base):
    """`base` is a forward C14 case; turn it into a backward-mode case (explicit, replayable)."""
    from .c05_adjoint import FWD
    rs = st.get("backward")
    method, sde_type, noises, levy = rs.choice(FWD)
    solver = {"method": method, "sde_type": sde_type, "noise_type": rs.choice(list(noises)), "levy": levy, "options": None}
    spec = stubs.gen_sde_spec(rs, solver)
    spec["kind"] = rs.choice(["linear", "trig", "tanh"])
    spec["stiff"] = 1.0
    case = dict(base)
    t0 = rs.choice([0.0, 0.0, 0.3, -1.0, 2.5])
    dt_min = rs.choice([1e-1, 3e-2, 1e-2, 3e-3, 1e-3])
    span = min(rs.choice([1.0, 0.5, 2.0, 0.25]), 150 * dt_min)
    dt = max(rs.choice([dt_min, dt_min * 3, span / 10, span / 3, span, 0.1]), dt_min)
    n_out = rs.choice([2, 3, 3, 4, 5])
    inner = sorted(t0 + span * rs.random() for _ in range(n_out - 2))
    if inner and rs.random() < 0.4:
        # an output just after / before another one: a segment shorter than dt_min (its only trial is a clipped one)
        inner[0] = max(t0 + 1e-9, min(inner[0], (inner[1] if len(inner) > 1 else t0 + span) - 0.3 * dt_min))
    ts = [t0] + inner + [t0 + span]
    case.update({"entry": "adjoint_backward", "solver": solver, "sde": spec, "dtype": rs.choice(["float64", "float64", "float32"]),
                 "ts": [fx(t) for t in ts], "dt": fx(dt), "dt_min": fx(dt_min), "tail_ulps": 0,
                 "rtol": fx(rs.choice([1e-1, 1e-2, 1e-3, 1e-5])), "atol": fx(rs.choice([1e-1, 1e-2, 1e-4, 1e-6])),
                 "fwd_adaptive": rs.random() < 0.4, "scalars_as_tensors": rs.random() < 0.3})
    return case


class _Online(BaseException):
    def __init__(self, v):
        self.v = v


def run_case(case, keep_log=False):
    import torchsde
    from .c14 import PROBES, Recorder, _ulp
    log = EventLog(keep_log)
    probes = {k: 0 for k in PROBES}
    probes["backward_mode"] = 1
    violation = None
    tdt = stubs.DT[case["dtype"]]
    spec, solver = case["sde"], case["solver"]
    B, m = spec["batch"], spec["m"]
    dt, dt_min = xf(case["dt"]), xf(case["dt_min"])
    rtol, atol = xf(case["rtol"]), xf(case["atol"])
    if case.get("scalars_as_tensors"):
        dt, dt_min, rtol, atol = (float(torch.tensor(v, dtype=tdt)) for v in (dt, dt_min, rtol, atol))
    conf = case["conf"]
    probes["conf_" + conf] = 1
    fired = {"miss": 0, "drop": 0, "blackout": 0}
    word = ""
    n_trials = 0
    span = 0.0
    try:
        ts = torch.tensor([xf(t) for t in case["ts"]], dtype=tdt)
        ts_list = [float(t) for t in ts]
        if any(b <= a for a, b in zip(ts_list[:-1], ts_list[1:])):
            raise SkipCase()
        t0, T = ts_list[0], ts_list[-1]
        span = T - t0
        if case["bm"] == "stub":
            inner = stubs.make_stub_brownian((B, m), tdt, case["bm_seed"], solver["levy"])
            probes["stub_bm"] = 1
            plan = None
        else:
            inner = torchsde.BrownianInterval(t0=t0, t1=T, size=(B, m), dtype=tdt, entropy=case["bm_seed"],
                                              levy_area_approximation=solver["levy"], cache_size=case["cache_size"])
            plan = seams.FaultPlan()
            seams.install_faulty_cache(inner, plan)
            plan.begin_op([{"kind": "miss", "at": 7 * i + 3} for i in range(60)] + [{"kind": "drop", "at": 11 * i + 5} for i in range(30)])
            probes["real_bm"] = 1
        script = [xf(x) for x in case["script"]]
        sde = stubs.make_sde(spec, case["dtype"])
        rec = stubs.make_recorder(inner)
        y0 = stubs.make_y0(spec, case["dtype"]).requires_grad_(True)
        # boundaries of the backward pass in reversed time, in the order they are met
        bounds = [-t for t in reversed(ts_list)]          # -T, ..., -t0
        bset = set(bounds)
        nseg = len(bounds) - 1
        amax = span / dt_min + 2 * nseg + 2
        rc = math.log(1.4 * max(dt, span) / dt_min) / math.log(1 / 0.932) + 2
        bound = int(amax * (rc + 1)) + 10
        budget = 4_000_000 + 6000 * bound
        cur = {"trial": None, "mid": None, "state": 0, "openers": [], "on": False}

        def next_boundary(a):
            for b in bounds:
                if b > a:
                    return b
            return bounds[-1]

        def online(k, x, y):
            if not cur["on"] or y is None:
                return
            ta, tb = -y, -x  # reversed time
            if ta == tb:
                return
            tr, mid, st_ = cur["trial"], cur["mid"], cur["state"]
            if tr is not None:
                if st_ == 1 and (ta, tb) == tr:
                    return
                if st_ in (1, 2) and ta == tr[0] and tb == mid:
                    cur["state"] = 2
                    return
                if st_ in (2, 3) and ta == mid and tb == tr[1]:
                    cur["state"] = 3
                    return
            cur["trial"] = (ta, tb)
            cur["mid"] = float(0.5 * (torch.tensor(ta, dtype=tdt) + torch.tensor(tb, dtype=tdt)))
            cur["state"] = 1
            cur["openers"].append((ta, tb, cur["mid"]))
            n = len(cur["openers"])
            if n > bound:
                raise _Online(Violation("backward_too_many_trials", {"trials": n, "bound": bound}, n))
            if tb not in bset and (tb - ta) < dt_min * (1 - 1e-6) - 2 * _ulp(tb, tdt):
                raise _Online(Violation("backward_trial_shorter_than_dt_min",
                                        {"k": n - 1, "a": fx(ta), "b": fx(tb), "dt_min": dt_min, "online": True}, n - 1))
        rec.on_request = online
        as_t = case.get("scalars_as_tensors")
        sc = (lambda v: torch.tensor(v, dtype=tdt)) if as_t else (lambda v: v)
        dt_arg, dt_min_arg = sc(dt), sc(dt_min)
        kw = {}
        if case.get("fwd_adaptive") and solver["method"] != "reversible_heun":
            kw.update(adaptive=True, rtol=rtol, atol=atol)
        with Recorder(conf, script) as R, seams.CallMonitor(budget):
            try:
                ys = torchsde.sdeint_adjoint(sde, y0, ts, bm=rec, method=solver["method"], dt=dt_arg, dt_min=dt_min_arg,
                                             adjoint_adaptive=True, adjoint_rtol=sc(rtol), adjoint_atol=sc(atol), **kw)
                n_fwd, e_fwd = len(rec.trace), len(R.errs)
                cur["on"] = True
                w = torch.linspace(1.0, 2.0, ys.numel(), dtype=tdt).reshape(ys.shape)
                (ys * w).sum().backward()
            except _Online as o:
                raise o.v
            except SimBudgetExceeded as e:
                raise Violation("backward_no_termination", {"trials_so_far": len(R.errs), "bound": bound, "msg": str(e)}, "run")
            except Violation:
                raise
            except Exception as e:  # noqa
                if isinstance(e, AssertionError) and "nans" in str(e):
                    probes["scheme_diverged"] = 1   # the augmented system blew up: the user's tolerances, not the controller
                    raise SkipCase()
                raise Violation(f"exception:{type(e).__name__}@{bm._where(e)}", {"msg": str(e)[:200]}, "backward")
        if as_t and (float(dt_arg) != dt or float(dt_min_arg) != dt_min):
            raise Violation("caller_scalar_modified", {"dt": [dt, float(dt_arg)], "dt_min": [dt_min, float(dt_min_arg)]}, "run")
        g = y0.grad
        log.add("backward", tdig(ys), tdig(g) if g is not None else None, n_fwd, len(rec.trace))
        trials = list(cur["openers"])
        errs = R.errs[e_fwd:]
        steps = R.steps[e_fwd:]
        n_trials = len(trials)
        if len(errs) != n_trials or len(steps) != n_trials:
            # a request pattern the segmentation does not understand: counted, not judged
            probes["unsegmentable_backward"] = 1
            raise SkipCase()
        if not trials:
            raise Violation("backward_no_trials", {}, "run")
        end = bounds[0]
        for k, (a, b, mid) in enumerate(trials):
            err = errs[k]
            prev_step, new_step = steps[k]
            last = k == n_trials - 1
            accepted = last or trials[k + 1][0] != a
            nb = next_boundary(a)
            if a != end:
                raise Violation("backward_not_contiguous", {"k": k, "a": fx(a), "expected": fx(end)}, k)
            if not a < b:
                raise Violation("backward_trial_not_advancing", {"k": k, "a": fx(a), "b": fx(b)}, k)
            if b > nb:
                raise Violation("backward_trial_crosses_output_time", {"k": k, "a": fx(a), "b": fx(b), "boundary": fx(nb)}, k)
            if b != nb and (b - a) < dt_min * (1 - 1e-6) - 2 * _ulp(b, tdt):
                raise Violation("backward_trial_shorter_than_dt_min", {"k": k, "a": fx(a), "b": fx(b), "dt_min": dt_min}, k)
            if err <= 1 and not accepted:
                raise Violation("backward_rejected_good_step", {"k": k, "err": err}, k)
            if err > 1 and accepted and not new_step <= dt_min:
                raise Violation("backward_accepted_bad_step", {"k": k, "err": err, "new_step": new_step, "dt_min": dt_min}, k)
            if err > 1 and not new_step < prev_step:
                raise Violation("backward_reject_does_not_shrink", {"k": k, "err": err, "prev": prev_step, "new": new_step}, k)
            if not accepted:
                na, nb2, _ = trials[k + 1]
                if (nb2 - na) > (b - a):
                    raise Violation("backward_retry_longer", {"k": k, "len": b - a, "retry_len": nb2 - na}, k)
                probes["rejected"] += 1
            else:
                end = b
                probes["accepted"] += 1
                if err > 1:
                    probes["accepted_with_err_gt_1_at_dt_min"] += 1
                if b == nb and (b - a) < dt_min * (1 - 1e-6):
                    probes["backward_clipped_short_trial"] += 1
            if (b - a) <= dt_min * (1 + 1e-6):
                probes["step_at_dt_min"] += 1
            word += "A" if accepted else "r"
        if end != bounds[-1]:
            raise Violation("backward_does_not_end_at_t0", {"end": fx(end), "want": fx(bounds[-1])}, "run")
        probes["trials"] = n_trials
        probes["backward_trials"] = n_trials
        probes["backward_segments"] = nseg
        if g is None or not bool(torch.isfinite(g).all()):
            probes["backward_grad_nonfinite"] = 1
        if plan is not None:
            fired = dict(plan.fired)
    except SkipCase:
        probes["skipped_degenerate_case"] = 1
    except Violation as v:
        violation = v.to_json()
    stats = {"faults": dict(fired, adversarial_error_values=len(case["script"]) if conf == "adv" else 0,
                            scripted_rejections=word.count("r") if conf == "adv" else 0),
             "probes": probes,
             "counters": {"ops": n_trials, "queries": n_trials * 3, "solver_steps": n_trials * 3, "sde_time": span},
             "states": [f"bwd/{solver['method']}/{spec['noise_type']}/{word[:200]}"] if word else []}
    out = {"violation": violation, "digest": log.digest(), "stats": stats}
    if keep_log:
        out["log"] = log.records
    return out
