"""Deterministic interleaving of real threads (baton passing).

Exactly one thread holds the baton and runs; at every pre-emption point (a `line` event of sys.settrace inside the
files under test, and every entry of the randomness seam) the seeded scheduler decides whether the baton moves. Since
only the baton holder executes, the sequence of decisions - and hence the interleaving - is a pure function of the
scheduler seed and the code under test.
"""
import random
import sys
import threading

from .core import HarnessError


class Baton:
    def __init__(self, n, seed, rate):
        self.cv = threading.Condition()
        self.turn = 0
        self.alive = [True] * n
        self.n = n
        self.rng = random.Random(seed)
        self.rate = rate
        self.switches = 0
        self.points = 0
        self.tls = threading.local()

    def me(self):
        return getattr(self.tls, "me", None)

    def wait_turn(self, me):
        with self.cv:
            while self.turn != me:
                self.cv.wait()

    def yield_point(self, me, rate=None):
        self.points += 1
        if self.rng.random() >= (self.rate if rate is None else rate):
            return
        others = [i for i in range(self.n) if i != me and self.alive[i]]
        if not others:
            return
        nxt = others[self.rng.randrange(len(others))]
        with self.cv:
            self.switches += 1
            self.turn = nxt
            self.cv.notify_all()
            while self.turn != me:
                self.cv.wait()

    def finish(self, me):
        with self.cv:
            self.alive[me] = False
            others = [i for i in range(self.n) if self.alive[i]]
            if others:
                self.turn = others[0]
            self.cv.notify_all()


def run_interleaved(fns, baton, trace_dirs, timeout=300):
    """Run the callables `fns` (one per thread) under the seeded baton-passing scheduler `baton`.
    Returns results: results[i] is ('ok', value) or ('exc', exception)."""
    n = len(fns)
    results = [None] * n
    tls = baton.tls

    def tracer_factory(me):
        def local(frame, event, arg):
            if event == "line":
                baton.yield_point(me)
            return local

        def tracer(frame, event, arg):
            if event == "call":
                fn = frame.f_code.co_filename
                for d in trace_dirs:
                    if fn.startswith(d):
                        return local
                return None
            return None
        return tracer

    def body(me):
        tls.me = me
        baton.wait_turn(me)
        sys.settrace(tracer_factory(me))
        try:
            results[me] = ("ok", fns[me]())
        except BaseException as e:  # noqa
            results[me] = ("exc", e)
        finally:
            sys.settrace(None)
            baton.finish(me)

    threads = [threading.Thread(target=body, args=(i,), daemon=True) for i in range(n)]
    for t in threads:
        t.start()
    for t in threads:
        t.join(timeout)
        if t.is_alive():
            raise HarnessError("interleaved threads did not finish (deadlock in the scheduler or a hang under test)")
    return results
