"""Self-tests of the harness itself.

  check selftest determinism [K]   every property: K run indices, each executed in a 16-process pool, again in a
                                   3-process pool (different worker, different neighbours), and once more in a fresh
                                   interpreter under another PYTHONHASHSEED; all run digests (event-log hash + probe /
                                   fault counters) must be equal. A mismatch is exit 2 HARNESS-NONDETERMINISM.
"""
import concurrent.futures as cf
import json
import multiprocessing as mp
import os
import subprocess
import sys

from . import runner
from .core import canon_hash, run_seed

PROPS = ["C03", "C04", "C05", "C06", "C07", "C12", "C13", "C14"]


def _one(args):
    prop, tier, seed, idx = args
    mod = runner.load(prop)
    case = mod.gen_case(run_seed(seed, prop, idx), tier, idx)
    if getattr(mod, "WARMUP_SKIP", None) and mod.WARMUP_SKIP(case):
        return idx, "skipped-heavy"
    res = runner._safe_run(mod, case)
    if res.get("harness_error"):
        return idx, "HARNESS-ERROR " + res["harness_error"][-300:]
    st = res.get("stats", {})
    return idx, canon_hash([canon_hash(case), res.get("digest"), res.get("violation"), st.get("probes"), st.get("faults"),
                            st.get("states")])


def digests(prop, tier, seed, idxs, procs):
    ctx = mp.get_context("fork")
    with cf.ProcessPoolExecutor(max_workers=procs, mp_context=ctx, initializer=runner._init_worker) as ex:
        return dict(ex.map(_one, [(prop, tier, seed, i) for i in idxs]))


def main(argv):
    what = argv[0] if argv else "determinism"
    if what == "_digests":
        prop, tier, seed = argv[1], argv[2], int(argv[3])
        idxs = json.loads(argv[4])
        print("DIGESTS " + json.dumps(digests(prop, tier, seed, idxs, 5)))
        return 0
    if what != "determinism":
        print(__doc__)
        return 2
    k = int(argv[1]) if len(argv) > 1 else 24
    seed = int(os.environ.get("VERIF_SEED", "0"))
    props = [p for p in os.environ.get("VERIF_PROPS", ",".join(PROPS)).split(",") if p]
    bad = 0
    total = 0
    for prop in props:
        idxs = list(range(k))
        a = digests(prop, "quick", seed, idxs, 16)
        b = digests(prop, "quick", seed, list(reversed(idxs)), 3)
        env = dict(os.environ)
        env["PYTHONHASHSEED"] = "12345"
        env["OMP_NUM_THREADS"] = "1"
        p = subprocess.run([sys.executable, os.path.join(os.path.dirname(__file__), "cli.py"), "selftest", "_digests", prop,
                            "quick", str(seed), json.dumps(idxs)], capture_output=True, text=True, env=env, timeout=3000)
        c = None
        for line in p.stdout.splitlines():
            if line.startswith("DIGESTS "):
                c = {int(i): d for i, d in json.loads(line[8:]).items()}
        if c is None:
            print(f"HARNESS-ERROR selftest: fresh interpreter gave no digests for {prop}:\n{p.stdout[-1000:]}{p.stderr[-1000:]}")
            return 2
        for i in idxs:
            total += 1
            if not (a[i] == b[i] == c[i]) or a[i].startswith("HARNESS"):
                bad += 1
                print(f"HARNESS-NONDETERMINISM property={prop} run_index={i}: pool16={a[i]} pool3={b[i]} fresh={c[i]}")
        print(f"selftest determinism {prop}: {len(idxs)} run indices x 3 executions "
              f"({sum(1 for i in idxs if a[i] == 'skipped-heavy')} heavy cases skipped)")
    print(f"selftest determinism: {total} runs compared, {bad} mismatches")
    return 2 if bad else 0
