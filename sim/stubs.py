"""In-process peers of the stepping loop: a stateless stub Brownian motion, a recording / crashing proxy for any
Brownian object, and a small zoo of smooth SDEs with call counters and crash points.
"""
import math

import torch

from .core import SimCrash, derive

DT = {"float64": torch.float64, "float32": torch.float32}


def _imports():
    from torchsde._brownian.brownian_base import BaseBrownian  # noqa
    return BaseBrownian


class _Lazy:
    base = None


def brownian_base():
    if _Lazy.base is None:
        _Lazy.base = _imports()
    return _Lazy.base


def make_stub_brownian(shape, dtype, seed, levy="none", n_modes=6):
    """StubBrownian: B(t) = sum_k a_k sin(w_k t + p_k) per element; W, U in closed form; A a fixed smooth
    antisymmetric function. Stateless: the same (s, t) always gives the same bits, whatever was asked before."""
    Base = brownian_base()
    g = torch.Generator().manual_seed(derive("stub", seed) % (2 ** 62))
    shape = tuple(shape)
    a = (torch.rand((n_modes, *shape), generator=g, dtype=torch.float64) - 0.5) * 1.2
    w = torch.rand((n_modes, *shape), generator=g, dtype=torch.float64) * 9.0 + 0.7
    p = torch.rand((n_modes, *shape), generator=g, dtype=torch.float64) * 6.28
    c = torch.rand((*shape, shape[-1]) if len(shape) >= 1 else (), generator=g, dtype=torch.float64) - 0.5

    class StubBrownian(Base):
        def __init__(self):
            super().__init__()
            self.calls = 0

        def _B(self, t):
            return (a * torch.sin(w * t + p)).sum(0)

        def _IB(self, t):
            return (-(a / w) * torch.cos(w * t + p)).sum(0)

        def __call__(self, ta, tb=None, return_U=False, return_A=False):
            self.calls += 1
            if tb is None:
                ta, tb = 0.0, ta
            s, t = float(ta), float(tb)
            W = (self._B(t) - self._B(s)).to(dtype)
            U = A = None
            if levy != "none":
                U = (self._IB(t) - self._IB(s) - (t - s) * self._B(s)).to(dtype)
            if levy in ("davie", "foster"):
                if len(shape) >= 2:
                    A = ((t - s) * math.sin(s + 2 * t) * (c - c.transpose(-1, -2))).to(dtype)
                else:
                    A = torch.zeros(shape, dtype=dtype)
            if return_U:
                if return_A:
                    return W, U, A
                return W, U
            if return_A:
                return W, A
            return W

        def __repr__(self):
            return f"StubBrownian(shape={shape}, levy={levy})"

        @property
        def dtype(self):
            return dtype

        @property
        def device(self):
            return torch.device("cpu")

        @property
        def shape(self):
            return shape

        @property
        def levy_area_approximation(self):
            return levy

    return StubBrownian()


def make_recorder(inner, crash_at=None):
    """RecordingBrownian: logs every request (ta, tb, return_U, return_A) as exact floats and forwards it.
    crash_at = k: the k-th request (0-based) raises SimCrash *before* it is forwarded."""
    Base = brownian_base()

    class RecordingBrownian(Base):
        def __init__(self):
            super().__init__()
            self.trace = []
            self.values = []
            self.crash_at = crash_at
            self.keep_values = False
            self.on_request = None  # optional online monitor: called with (index, ta, tb) before forwarding

        def __call__(self, ta, tb=None, return_U=False, return_A=False):
            k = len(self.trace)
            if self.on_request is not None:
                self.on_request(k, float(ta), None if tb is None else float(tb))
            if self.crash_at is not None and k == self.crash_at:
                self.crash_at = None
                raise SimCrash(f"brownian request {k}")
            self.trace.append((float(ta), None if tb is None else float(tb), bool(return_U), bool(return_A)))
            out = inner(ta, tb, return_U=return_U, return_A=return_A)
            if self.keep_values:
                self.values.append(out)
            return out

        def __repr__(self):
            return f"RecordingBrownian({inner!r})"

        @property
        def dtype(self):
            return inner.dtype

        @property
        def device(self):
            return inner.device

        @property
        def shape(self):
            return inner.shape

        @property
        def levy_area_approximation(self):
            return inner.levy_area_approximation

    return RecordingBrownian()


# ----------------------------------------------------------------------------------------
# SDE zoo

NOISE = ("diagonal", "additive", "scalar", "general")

# (method, sde_type, allowed noise types, levy modes acceptable, options)
SOLVERS = [
    ("euler", "ito", NOISE, ("none", "space-time", "davie", "foster"), None),
    ("milstein", "ito", ("diagonal", "additive", "scalar"), ("none", "space-time", "davie", "foster"), None),
    ("milstein", "ito", ("diagonal", "scalar"), ("none", "space-time"), {"grad_free": True}),
    ("srk", "ito", ("diagonal", "additive", "scalar"), ("space-time", "davie", "foster"), None),
    ("midpoint", "stratonovich", NOISE, ("none", "space-time", "davie", "foster"), None),
    ("heun", "stratonovich", NOISE, ("none", "space-time", "davie", "foster"), None),
    ("euler_heun", "stratonovich", NOISE, ("none", "space-time", "davie", "foster"), None),
    ("milstein", "stratonovich", ("diagonal", "additive", "scalar"), ("none", "space-time", "davie", "foster"), None),
    ("milstein", "stratonovich", ("diagonal", "scalar"), ("none", "space-time"), {"grad_free": True}),
    ("reversible_heun", "stratonovich", NOISE, ("none", "space-time", "davie", "foster"), None),
    ("log_ode", "stratonovich", NOISE, ("davie", "foster"), None),
]


def gen_solver(rng):
    method, sde_type, noises, levys, options = rng.choice(SOLVERS)
    return {"method": method, "sde_type": sde_type, "noise_type": rng.choice(list(noises)),
            "levy": rng.choice(list(levys)), "options": options}


class ZooSDE(torch.nn.Module):
    """Smooth SDE of a given noise type; counts calls; can crash at its k-th drift or diffusion evaluation."""

    def __init__(self, kind, noise_type, sde_type, d, m, dtype, seed, stiff=1.0):
        super().__init__()
        self.noise_type = noise_type
        self.sde_type = sde_type
        self.kind = kind
        self.d, self.m = d, m
        g = torch.Generator().manual_seed(derive("zoo", seed) % (2 ** 62))
        r = lambda *s: (torch.rand(s, generator=g, dtype=torch.float64) - 0.5).to(dtype)  # noqa
        self.a = torch.nn.Parameter(r(d).abs() * 2 + 0.3)
        self.b = torch.nn.Parameter(r(d))
        self.M = torch.nn.Parameter(r(d, d) * 0.8)
        mm = d if noise_type == "diagonal" else (1 if noise_type == "scalar" else m)
        self.G = torch.nn.Parameter(r(d, mm) * 0.7)
        self.stiff = float(stiff)
        self.gquad = False
        self.n_f = 0
        self.n_g = 0
        self.crash_f = None
        self.crash_g = None

    def f(self, t, y):
        k = self.n_f
        self.n_f += 1
        if self.crash_f is not None and k == self.crash_f:
            self.crash_f = None
            raise SimCrash(f"drift evaluation {k}")
        t = torch.as_tensor(t, dtype=y.dtype)
        if self.kind == "linear":
            return -self.stiff * self.a * y + self.b * torch.sin(t)
        if self.kind == "trig":
            return torch.sin(y) * self.a + torch.cos(t * 2.0) * self.b
        if self.kind == "tanh":
            return torch.tanh(y @ self.M) - 0.5 * y + self.b * t
        if self.kind == "stiff":
            return -self.stiff * (y - torch.cos(t)) * self.a
        raise ValueError(self.kind)

    def h(self, t, y):
        """Prior drift (only used with logqp=True)."""
        t = torch.as_tensor(t, dtype=y.dtype)
        return -0.4 * y + 0.1 * torch.sin(t)

    def g(self, t, y):
        k = self.n_g
        self.n_g += 1
        if self.crash_g is not None and k == self.crash_g:
            self.crash_g = None
            raise SimCrash(f"diffusion evaluation {k}")
        t = torch.as_tensor(t, dtype=y.dtype)
        nt = self.noise_type
        if self.gquad and nt == "diagonal":
            return 0.3 + 0.25 * (1.0 - torch.cos(y))  # bounded diffusion with a critical point at y = 0
        if self.gquad and nt == "scalar":
            return (0.3 + 0.25 * (1.0 - torch.cos(y))).unsqueeze(-1)
        if nt == "diagonal":
            return 0.3 + 0.2 * torch.sin(y) * self.G.diagonal() + 0.05 * torch.cos(t)
        if nt == "additive":
            return (self.G * (1.0 + 0.1 * torch.sin(t))).unsqueeze(0).expand(y.size(0), -1, -1)
        if nt == "scalar":
            return (0.2 * torch.cos(y) + 0.1 * self.G[:, 0]).unsqueeze(-1) * (1.0 + 0.1 * t)
        return self.G.unsqueeze(0) * (1.0 + 0.3 * torch.tanh(y).unsqueeze(-1)) + 0.02 * torch.sin(t)


class FusedZooSDE(ZooSDE):
    """The same SDE declared with the optional fused methods the library prefers when they exist (`f_and_g`, `g_prod`):
    other code paths through ForwardSDE and the solvers, same mathematics, same call counters and crash points."""

    def f_and_g(self, t, y):
        return self.f(t, y), self.g(t, y)

    def g_prod(self, t, y, v):
        g = self.g(t, y)
        if self.noise_type == "diagonal":
            return g * v
        return (g @ v.unsqueeze(-1)).squeeze(-1)


class RenamedZooSDE(torch.nn.Module):
    """The same SDE with its methods under other names (`names=` argument of sdeint): no `f` / `g` / `h` attributes."""
    NAMES = {"drift": "drift_fn", "diffusion": "diffusion_fn", "prior_drift": "prior_fn"}

    def __init__(self, inner):
        super().__init__()
        self.inner = inner
        self.noise_type, self.sde_type = inner.noise_type, inner.sde_type

    def drift_fn(self, t, y):
        return self.inner.f(t, y)

    def diffusion_fn(self, t, y):
        return self.inner.g(t, y)

    def prior_fn(self, t, y):
        return self.inner.h(t, y)

    # call counters and crash points live on the inner object
    n_f = property(lambda self: self.inner.n_f)
    n_g = property(lambda self: self.inner.n_g)
    crash_f = property(lambda self: self.inner.crash_f, lambda self, v: setattr(self.inner, "crash_f", v))
    crash_g = property(lambda self: self.inner.crash_g, lambda self, v: setattr(self.inner, "crash_g", v))


def make_sde(spec, dtype, allow_renamed=False):
    """`spec["form"]`: plain | fused | renamed (the last only where the caller passes `names_of(sde)` on to sdeint)."""
    form = spec.get("form", "plain")
    cls = FusedZooSDE if form == "fused" else ZooSDE
    sde = cls(spec["kind"], spec["noise_type"], spec["sde_type"], spec["d"], spec["m"], DT[dtype], spec["seed"],
              spec.get("stiff", 1.0))
    sde.gquad = bool(spec.get("gquad"))
    if form == "renamed" and allow_renamed:
        return RenamedZooSDE(sde)
    return sde


def names_of(sde):
    return dict(RenamedZooSDE.NAMES) if isinstance(sde, RenamedZooSDE) else None


def gen_sde_spec(rng, solver, stiff_choices=(1.0,)):
    nt = solver["noise_type"]
    d = rng.choice([1, 2, 3])
    m = d if nt == "diagonal" else (1 if nt == "scalar" else rng.choice([1, 2, 3]))
    return {"kind": rng.choice(["linear", "trig", "tanh", "stiff"]), "noise_type": nt, "sde_type": solver["sde_type"],
            "d": d, "m": m, "seed": rng.randrange(1 << 30), "stiff": rng.choice(list(stiff_choices)),
            "batch": rng.choice([1, 2, 3]),
            # now and then: a diffusion with a critical point, started exactly there
            "gquad": nt in ("diagonal", "scalar") and rng.random() < 0.08, "y0_zero": rng.random() < 0.08,
            # how the SDE is declared (round 3): plain f / g, with the optional fused methods, or under other method names
            "form": rng.choice(["plain", "plain", "plain", "fused", "fused", "renamed"])}


def make_y0(spec, dtype):
    if spec.get("y0_zero"):
        return torch.zeros((spec["batch"], spec["d"]), dtype=DT[dtype])
    g = torch.Generator().manual_seed(derive("y0", spec["seed"]) % (2 ** 62))
    return (torch.rand((spec["batch"], spec["d"]), generator=g, dtype=torch.float64) - 0.5).to(DT[dtype])


def steps_of(trace):
    """The solver's steps as seen through the Brownian proxy: consecutive requests for the same interval (a solver
    that asks twice for one step, e.g. W and U separately) count as one step. A fixed-step solver never follows a step
    by a *shorter* request with the same start, so a request that is (a span probe over the whole call, issued before
    the loop) is not a step either."""
    reqs = []
    for req in trace:
        if req[1] is not None and req[0] == req[1]:
            continue  # an empty request (e.g. a shape probe) is not a step
        if reqs and reqs[-1][0] == req[0] and reqs[-1][1] == req[1]:
            continue
        reqs.append(req)
    out = []
    for i, req in enumerate(reqs):
        nxt = reqs[i + 1] if i + 1 < len(reqs) else None
        if nxt is not None and nxt[0] == req[0] and nxt[1] is not None and req[1] is not None and nxt[1] < req[1]:
            continue  # a probe spanning more than the step that follows it from the same start
        out.append(req)
    return out
