"""Helper for C06 experiment X: evaluate one Brownian case in a *fresh interpreter* (own hash salt, own import order, no
state inherited from the harness process) and print the exact bits of every answer as JSON.
stdin: {"cfg": ..., "ops": [...]}   stdout: last line = JSON list of {component: digest} | "truncated" | "error: ..."."""
import json
import os
import sys

HERE = os.path.dirname(os.path.dirname(os.path.abspath(__file__)))
if HERE not in sys.path:
    sys.path.insert(0, HERE)


def main():
    from sim.core import import_torchsde
    import_torchsde()
    import torch
    torch.set_num_threads(1)
    from sim import bmachine as bm
    from sim.core import EventLog, Streams, tdig
    from sim.props.c06 import _call
    req = json.loads(sys.stdin.read())
    try:
        b = bm.build(req["cfg"], Streams(1).get("entropy"), faults=False)
        ex = bm.BMExec(b, EventLog(False))
        out = []
        for i, op in enumerate(req["ops"]):
            r = _call(ex, op, i, None)
            out.append({k: tdig(v) for k, v in r.items()})
        res = out
    except bm.CaseTooExpensive:
        res = "truncated"
    except BaseException as e:  # noqa
        res = "error: " + repr(e)[:200]
    finally:
        bm.restore_env()
    print("\n" + json.dumps(res))


if __name__ == "__main__":
    main()
