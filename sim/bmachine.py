"""The Brownian machine: the Brownian objects of torchsde driven as a long-lived stateful service.

A *case* is explicit JSON: a constructor configuration plus a list of ops (queries with the cache
faults that fire during them). This module generates cases from named PRNG streams, builds the
object, executes ops through the fault-injecting cache seam, and records every answer.
"""
import contextlib
import io
import math
import traceback
import warnings

import torch

from . import seams
from .core import (EventLog, HarnessError, PassThrough, SimBudgetExceeded, Violation, derive, fx, tdig,
                   ulp_next, xf)

LEVY = ("none", "space-time", "davie", "foster")
DTYPES = {"float64": torch.float64, "float32": torch.float32}


# ----------------------------------------------------------------------------------------
# configuration


def _pick(rng, weighted):
    """weighted: list of (value, weight)."""
    tot = sum(w for _, w in weighted)
    x = rng.random() * tot
    for v, w in weighted:
        x -= w
        if x < 0:
            return v
    return weighted[-1][0]


def grid_digits(tol, rng=None):
    """Decimal digits of the times the generator treats as 'resolved' for tolerance `tol`:
    never finer than the tolerance, whatever the rounding implementation."""
    if tol <= 0:
        return None
    e = -math.log10(tol)
    nd = int(math.floor(e + 1e-9))
    if tol >= 1:
        return nd  # tolerances above 1: tens / hundreds grid (negative number of digits)
    if abs(e - round(e)) < 1e-9 and rng is not None and rng.random() < 0.6:
        return nd  # full resolution for exact powers of ten
    return max(nd - 1, 0)


def gen_config(rng, *, fronts=(("interval", 6), ("reverse", 1.5), ("tree", 1.5), ("path", 1)),
               levy=None, halfway=None, allow_f32=True, max_designed=4096, small=False):
    front = _pick(rng, list(fronts))
    cfg = {"front": front}
    # interval
    kind = _pick(rng, [("unit", 5), ("long", 1.5), ("tiny", 1), ("neg", 1.5), ("offset", 1)])
    if kind == "unit":
        t0, t1 = 0.0, 1.0
    elif kind == "long":
        t0, t1 = 0.0, rng.choice([10.0, 37.5, 1000.0])
    elif kind == "tiny":
        t0, t1 = 0.0, rng.choice([1e-3, 0.0625])
    elif kind == "neg":
        t0, t1 = rng.choice([(-1.0, 0.0), (-2.5, 1.5), (-10.0, -9.0)])
    else:
        t0 = rng.choice([1000.0, -1000.0])
        t1 = t0 + rng.choice([1.0, 4.0])
    size = _pick(rng, [((), 1), ((2,), 1.5), ((3,), 0.5), ((2, 2), 2), ((1, 3), 1), ((3, 2), 1), ((2, 1), 0.5),
                       ((2, 1, 2), 0.4), ((1, 2, 3), 0.3)])
    if small:
        size = _pick(rng, [((), 1), ((2,), 1), ((2, 2), 2)])
    dtype = "float32" if (allow_f32 and rng.random() < 0.12) else "float64"
    lv = levy if levy is not None else _pick(rng, [("none", 2), ("space-time", 3), ("davie", 2), ("foster", 2)])
    hw = halfway if halfway is not None else (rng.random() < 0.25)
    tol = 0.0
    if hw or rng.random() < 0.2:
        tol = rng.choice([1e-2, 1e-3, 1e-3, 1e-4, 1e-6, 1e-8, 5e-4])
        if t1 - t0 >= 1000 and rng.random() < 0.5:
            tol = rng.choice([5.0, 2.0, 0.5, 30.0])  # coarse tolerances (incl. > 1) on long intervals
    cache = _pick(rng, [(0, 1), (1, 1.5), (2, 1.5), (3, 1), (5, 1), (10, 0.5), (45, 3), (100, 0.5), (1000, 0.5),
                        (None, 1.5)])
    dt = None
    if not hw and rng.random() < 0.35:
        dt = (t1 - t0) * rng.choice([0.5, 0.1, 0.03, 0.01, 0.003, 1.7])
    pool = rng.choice([4, 8, 8, 24])
    entropy = rng.randrange(0, 2 ** 31 - 1) if rng.random() < 0.9 else None
    if entropy is not None and rng.random() < 0.08:
        entropy = rng.choice([0, 0, 1, 2 ** 31 - 2, 2 ** 40 + 7])  # edge values: zero is a valid seed
    # "refine early" knob, through the public API only: the first query is repeated `warm_rep` times, which uses up
    # (most of) the 100-query warm-up of the step-size estimator, so that the dependency tree is (re)built at a
    # PRNG-chosen moment of a short history.
    warm = _pick(rng, [(None, 3), (80, 1), (97, 1.5), (99, 1), (100, 1)])

    if front == "path":
        t1 = t0 + 1.0
        lv, hw, tol, cache, dt, entropy, pool = "none", False, 0.0, None, None, None, 8
        if len(size) == 0:
            size = (2,)
    elif front == "tree":
        lv, hw, cache, dt = "none", True, 45, None
        if tol == 0.0:
            tol = rng.choice([1e-3, 1e-4, 1e-6])
        pool = rng.choice([8, 24])
        if len(size) == 0:
            size = (2,)
    if hw:
        dt = None
        warm = None
        if tol == 0.0:
            tol = 1e-3
        # depth of the dyadic tree ~ log2((t1-t0)/tol): keep queries affordable
        if (t1 - t0) / tol > 1e9:
            tol = (t1 - t0) / 1e6
            tol = 10.0 ** math.ceil(math.log10(tol))
    if tol > 0 and (t1 - t0) <= 20 * tol:
        tol = 10.0 ** math.floor(math.log10((t1 - t0) / 100))
    # with tol > 0 the interval's own end points must be resolved times too (else t1 itself is rounded away)
    gd = grid_digits(tol, rng)
    while tol > 0 and (round(t0, gd) != t0 or round(t1, gd) != t1):
        tol /= 10
        gd = grid_digits(tol, rng)
    # keep the *designed* size of the dependency tree bounded
    if dt is not None:
        c = 100 if cache is None else max(1, min(cache, 100))
        while (t1 - t0) / (0.8 * dt * c) > max_designed:
            dt *= 4
    cfg.update(t0=fx(t0), t1=fx(t1), size=list(size), dtype=dtype, levy=lv, cache_size=cache,
               dt=None if dt is None else fx(dt), tol=fx(tol), halfway=hw, pool_size=pool, entropy=entropy,
               supply_W=(rng.random() < 0.15 and front in ("interval", "reverse", "tree")),
               supply_H=(rng.random() < 0.1 and front in ("interval", "reverse") and lv != "none"),
               warmup=warm, gd=gd)
    return cfg


def _supplied(cfg, what):
    size = tuple(cfg["size"])
    g = torch.Generator().manual_seed(derive("supplied", cfg["entropy"], what) % (2 ** 62))
    t0, t1 = xf(cfg["t0"]), xf(cfg["t1"])
    x = seams._real_randn(size, dtype=DTYPES[cfg["dtype"]], generator=g)
    scale = math.sqrt(t1 - t0) if what == "W" else math.sqrt((t1 - t0) / 12)
    return x * scale


class Built:
    """A constructed front end plus what the harness knows about it."""

    def __init__(self, cfg, front, interval, plan, cache, dom, w0):
        self.cfg = cfg
        self.front = front
        self.interval = interval
        self.plan = plan
        self.cache = cache
        self.dom = dom
        self.w0 = w0
        self.ctor_depth = 0


EVENTS0 = 6_000_000      # most expensive legitimate call measured: ~6e5 call events (refinement through a warm-up chain)
EVENTS_PER_NODE = 400     # legitimate tree construction: ~30 call events per designed leaf
MAX_DESIGNED = 8192
CPU_LIMIT_S = 90.0        # CPU-time backstop per service call / constructor (slowest legitimate ones: ~2-3 s)


def designed_nodes_hint(cfg):
    if cfg["dt"] is None or cfg["halfway"]:
        return 0.0
    span = xf(cfg["t1"]) - xf(cfg["t0"])
    return span / (0.8 * xf(cfg["dt"]) * designed_c(cfg))


def build(cfg, entropy_rng, *, faults=True, entropy_override=None, monitor=True):
    """Construct the Brownian object described by cfg (through the public constructors only). The constructor runs
    under the deterministic step budget (a constructor that never returns is a violation, class 'budget')."""
    if monitor:
        budget = int(EVENTS0 + EVENTS_PER_NODE * min(designed_nodes_hint(cfg), 4 * MAX_DESIGNED))
        with seams.CallMonitor(budget, CPU_LIMIT_S) as m:
            try:
                b = build(cfg, entropy_rng, faults=faults, entropy_override=entropy_override, monitor=False)
            except SimBudgetExceeded as e:
                raise Violation("stalled" if str(e).startswith("stalled") else "budget", {"where": "constructor", "msg": str(e)}, "ctor")
        b.ctor_depth = m.max_depth
        return b
    import torchsde
    t0, t1 = xf(cfg["t0"]), xf(cfg["t1"])
    size = tuple(cfg["size"])
    dtype = DTYPES[cfg["dtype"]]
    tol = xf(cfg["tol"])
    entropy = cfg["entropy"] if entropy_override is None else entropy_override
    front_kind = cfg["front"]
    w0 = None
    try:
        return _build(cfg, entropy_rng, faults, entropy, t0, t1, size, dtype, tol, front_kind)
    except (HarnessError, Violation, PassThrough, SimBudgetExceeded):
        raise
    except RecursionError as e:
        raise Violation(f"exception:RecursionError@{_where(e)}", {"where": "constructor"}, "ctor")
    except Exception as e:  # noqa
        raise Violation(f"exception:{type(e).__name__}@{_where(e)}", {"where": "constructor", "msg": str(e)[:200]}, "ctor")


def _build(cfg, entropy_rng, faults, entropy, t0, t1, size, dtype, tol, front_kind):
    import torchsde
    w0 = None
    with seams.entropy_seam(entropy_rng):
        if front_kind in ("interval", "reverse"):
            kw = dict(t0=t0, t1=t1, size=size, dtype=dtype, entropy=entropy, tol=tol,
                      pool_size=cfg["pool_size"], cache_size=cfg["cache_size"], halfway_tree=cfg["halfway"],
                      levy_area_approximation=cfg["levy"])
            if cfg["dt"] is not None:
                kw["dt"] = xf(cfg["dt"])
            if cfg.get("supply_W"):
                kw["W"] = _supplied(cfg, "W")
            if cfg.get("supply_H"):
                kw["H"] = _supplied(cfg, "H")
            base = torchsde.BrownianInterval(**kw)
            if front_kind == "reverse":
                from torchsde._brownian.derived import ReverseBrownian
                front = ReverseBrownian(base)
                dom = (-t1, -t0)
            else:
                front = base
                dom = (t0, t1)
        elif front_kind == "path":
            w0 = _supplied(cfg, "w0")
            front = torchsde.BrownianPath(t0=t0, w0=w0)
            dom = (t0, t0 + 1.0)
        elif front_kind == "tree":
            w0 = _supplied(cfg, "w0")
            w1 = None
            if cfg.get("supply_W"):
                w1 = w0 + _supplied(cfg, "W")
            front = torchsde.BrownianTree(t0=t0, w0=w0, t1=t1, w1=w1, entropy=entropy, tol=tol,
                                          pool_size=cfg["pool_size"])
            dom = (t0, t1)
        else:
            raise HarnessError(f"unknown front {front_kind}")
    plan = seams.FaultPlan()
    cache = interval = None
    if faults:
        cache, interval = seams.install_faulty_cache(front, plan)
    else:
        interval = seams.find_inner_interval(front)
    return Built(cfg, front, interval, plan, cache, dom, w0)


# ----------------------------------------------------------------------------------------
# op generation


def _t(rng, cfg, dom, lo=None, hi=None):
    """A time in [lo, hi] (default the whole domain), on the tolerance grid when tol > 0."""
    a = dom[0] if lo is None else lo
    b = dom[1] if hi is None else hi
    x = a + (b - a) * rng.random()
    gd = cfg.get("gd")
    if gd is not None:
        x = round(x, gd)
        x = min(max(x, dom[0]), dom[1])
    return x


def _flags(rng, cfg):
    lv = cfg["levy"]
    U = A = False
    if lv != "none":
        U = rng.random() < 0.6
    if lv in ("davie", "foster"):
        A = rng.random() < 0.6
    elif rng.random() < 0.03:
        A = True  # legal: returns None for A
    if lv == "none" and rng.random() < 0.05:
        U = True  # legal: returns None for U
    return U, A


def _q(ta, tb, U=False, A=False, tag=None, og=False):
    """og: the times are NOT on the tolerance grid (value oracles skip such ops)."""
    op = {"op": "q", "ta": fx(ta), "tb": fx(tb), "U": bool(U), "A": bool(A)}
    if tag:
        op["tag"] = tag
    if og:
        op["og"] = True
    return op


DEFAULT_MIX = {"uniform": 4, "sweep": 2, "adaptive": 2, "cluster": 2, "nested": 1, "tiny": 1, "requery": 3,
               "whole": 0.5, "point": 0.7, "zero": 0.5, "triple": 3, "offgrid": 0.7, "dyadic": 1.5, "outside": 0.4,
               "env": 0.25, "sib": 0.0, "misc": 0.3}


def _dyadic(rng, cfg, dom):
    """A point dom0 + span * j / 2^k (k <= 6), incl. both ends: the places where a dyadic tree has single nodes."""
    k = rng.choice([0, 1, 1, 2, 2, 3, 4, 6])
    j = rng.randrange(0, 2 ** k + 1)
    x = dom[0] + (dom[1] - dom[0]) * j / 2 ** k
    if j == 2 ** k:
        x = dom[1]
    gd = cfg.get("gd")
    if gd is not None:
        x = min(max(round(x, gd), dom[0]), dom[1])
    return x


def gen_ops(rng, cfg, dom, n_target, mix=None):
    """Generate ~n_target ops. Times are explicit; nothing in an op refers to generator state."""
    mix = dict(DEFAULT_MIX if mix is None else mix)
    tol = xf(cfg["tol"])
    gd = cfg.get("gd")
    if tol == 0:
        mix["offgrid"] = 0
    else:
        mix["tiny"] = 0
    kinds = [(k, w) for k, w in mix.items() if w > 0]
    ops = []
    span = dom[1] - dom[0]
    min_len = 10.0 ** (-gd) if gd is not None else 0.0

    def ordered(a, b):
        return (a, b) if a <= b else (b, a)

    while len(ops) < n_target:
        k = _pick(rng, kinds)
        U, A = _flags(rng, cfg)
        if k == "uniform":
            a, b = ordered(_t(rng, cfg, dom), _t(rng, cfg, dom))
            ops.append(_q(a, b, U, A))
        elif k == "sweep":
            n = rng.choice([3, 5, 8, 13, 30])
            a, b = ordered(_t(rng, cfg, dom), _t(rng, cfg, dom))
            if b - a <= max(min_len * n, 0):
                continue
            pts = [a + (b - a) * i / n for i in range(n + 1)]
            if gd is not None:
                pts = sorted(set(round(p, gd) for p in pts))
            steps = list(zip(pts[:-1], pts[1:]))
            fl = _flags(rng, cfg)
            seq = [_q(s, e, *fl, tag="sweep") for s, e in steps]
            if rng.random() < 0.5:
                seq = seq + [dict(o) for o in reversed(seq)]
            ops.extend(seq)
        elif k == "adaptive":
            cur = _t(rng, cfg, dom)
            h = span * rng.choice([0.2, 0.05, 0.01])
            fl = _flags(rng, cfg)
            for _ in range(rng.choice([2, 4, 8])):
                nxt = min(cur + h, dom[1])
                if gd is not None:
                    nxt = min(round(nxt, gd), dom[1])
                if nxt <= cur:
                    break
                mid = 0.5 * (cur + nxt)
                if gd is not None:
                    mid = round(mid, gd)
                ops.append(_q(cur, nxt, *fl, tag="full"))
                if cur < mid < nxt:
                    ops.append(_q(cur, mid, *fl, tag="half"))
                    ops.append(_q(mid, nxt, *fl, tag="half"))
                    if rng.random() < 0.3:
                        ops.append(_q(cur, nxt, *fl, tag="refull"))  # the full step again, right after its halves
                if rng.random() < 0.4:
                    h *= 0.5
                else:
                    cur = nxt
                    h *= 1.3
        elif k == "cluster":
            prev = [o for o in ops if o["op"] == "q" and not o.get("og")]
            if not prev:
                continue
            o = rng.choice(prev)
            c = xf(rng.choice([o["ta"], o["tb"]]))
            eps = span * rng.choice([1e-2, 1e-4, 1e-7, 1e-10])
            a = max(dom[0], c - eps * rng.random())
            b = min(dom[1], c + eps * rng.random())
            if gd is not None:
                a, b = round(a, gd), round(b, gd)
                a, b = max(a, dom[0]), min(b, dom[1])
            if rng.random() < 0.5:
                a = c if c <= b else a
            a, b = ordered(a, b)
            ops.append(_q(a, b, U, A))
        elif k == "nested":
            c = _t(rng, cfg, dom)
            w = span * 0.4
            for _ in range(rng.choice([3, 6, 12])):
                a, b = max(dom[0], c - w), min(dom[1], c + w)
                if gd is not None:
                    a, b = round(a, gd), round(b, gd)
                    a, b = max(a, dom[0]), min(b, dom[1])
                if a < b:
                    ops.append(_q(a, b, U, A))
                w *= rng.choice([0.5, 0.3, 0.1])
        elif k == "tiny":
            x = _t(rng, cfg, dom)
            y = ulp_next(x, rng.choice([1, 1, 2, 4, 64]))
            if y <= dom[1]:
                ops.append(_q(x, y, U, A, tag="ulp"))
        elif k == "requery":
            pts = [o for o in ops if o["op"] == "point"]
            if pts and rng.random() < 0.25:
                ops.append(dict(rng.choice(pts)))  # the same point evaluation again (non-monotone order)
                continue
            prev = [o for o in ops if o["op"] == "q"]
            if not prev:
                continue
            o = rng.choice(prev)
            if rng.random() < 0.5:
                ops.append(_q(xf(o["ta"]), xf(o["tb"]), o["U"], o["A"], tag="requery", og=o.get("og", False)))
            else:
                ops.append(_q(xf(o["ta"]), xf(o["tb"]), U, A, tag="requery", og=o.get("og", False)))
        elif k == "whole":
            ops.append(_q(dom[0], dom[1], U, A, tag="whole"))
        elif k == "point":
            if cfg["front"] == "reverse":
                continue  # ReverseBrownian has no point form (tb=None is not supported by it)
            t = _dyadic(rng, cfg, dom) if rng.random() < 0.5 else _t(rng, cfg, dom)
            ops.append({"op": "point", "t": fx(t)})
        elif k == "outside":
            # partly or wholly outside the interval: accepted by the API (clipped with a warning). No value oracle,
            # but it is one more "other interval queried in between" and must not disturb anything.
            w = span * rng.choice([0.01, 0.3, 1.0, 2.5])
            if rng.random() < 0.5:
                a, b = dom[1] - w * rng.random(), dom[1] + w * rng.random() + 1e-9
            else:
                a, b = dom[0] - w * rng.random() - 1e-9, dom[0] + w * rng.random()
            if rng.random() < 0.2:
                a = b = dom[1] + w  # wholly outside
            ops.append(_q(a, b, U, A, tag="outside", og=True))
        elif k == "env":
            # environment perturbation between queries: the process-wide default dtype is switched (legal, and
            # irrelevant to an object whose dtype was fixed at construction)
            ops.append({"op": "env", "default_dtype": rng.choice(["float32", "float64", "float64"])})
        elif k == "misc":
            # other legal things a caller does with the object between two queries; none of them is a query, so none may
            # disturb the answers (round 3): a *rejected* call (ta > tb raises before anything is looked up), reading the
            # public attributes, repr(), printing the tree
            what = rng.choice(["rejected", "rejected", "props", "repr", "dump"])
            a, b = ordered(_t(rng, cfg, dom), _t(rng, cfg, dom))
            if a == b:
                continue
            ops.append({"op": "misc", "what": what, "ta": fx(b), "tb": fx(a)})  # note: ta > tb
        elif k == "sib":
            # a query to a *sibling object* (same entropy, other sample shape / dtype) living in the same process
            a, b = ordered(_t(rng, cfg, dom), _t(rng, cfg, dom))
            prev = [o for o in ops if o["op"] == "q" and not o.get("og")]
            if prev and rng.random() < 0.7:
                o = rng.choice(prev)
                a, b = xf(o["ta"]), xf(o["tb"])
            ops.append({"op": "sib", "ta": fx(a), "tb": fx(b)})
        elif k == "dyadic":
            a, b = ordered(_dyadic(rng, cfg, dom), _dyadic(rng, cfg, dom))
            ops.append(_q(a, b, U, A, tag="dyadic"))
        elif k == "zero":
            x = _t(rng, cfg, dom)
            o = _q(x, x, U, A, tag="zero")
            if rng.random() < 0.3:
                # an empty query repeated past the 100-query warm-up of the step-size estimator (a logging hook probing
                # bm(t, t)): empty queries must not feed the estimator, whatever their position in the history
                o["rep"] = rng.choice([100, 101, 130])
                if rng.random() < 0.5:
                    ops.insert(0, o)   # ... in particular before the first real query
                    continue
            ops.append(o)
        elif k == "triple":
            s, u, t = sorted([_t(rng, cfg, dom), _t(rng, cfg, dom), _t(rng, cfg, dom)])
            if rng.random() < 0.3:
                prev = [o for o in ops if o["op"] == "q" and not o.get("og")]
                if prev:
                    o = rng.choice(prev)
                    s2, t2 = xf(o["ta"]), xf(o["tb"])
                    if s2 < t2:
                        s, t = s2, t2
                        u = _t(rng, cfg, dom, s, t)
            if not (s < u < t):
                continue
            three = [_q(s, t, U, A, tag="triple"), _q(s, u, U, A, tag="triple"), _q(u, t, U, A, tag="triple")]
            rng.shuffle(three)
            ops.extend(three)
        elif k == "offgrid":
            # times NOT on the tolerance grid: only no-crash / repeatability / W == on-grid twin are checked
            a, b = ordered(dom[0] + span * rng.random(), dom[0] + span * rng.random())
            if rng.random() < 0.3:
                b = a + tol * rng.choice([0.3, 0.05, 1e-3])  # shorter than the tolerance
                b = min(b, dom[1])
            ops.append(_q(a, b, U, A, tag="offgrid", og=True))
    return ops[:max(n_target, 1)] if len(ops) > n_target + 40 else ops


def add_arg_types(rng, ops, p=0.15):
    """Times are sometimes passed the way solvers pass them (0-dim tensors) or as ints (explicit field `targ`)."""
    for op in ops:
        if op["op"] != "q" or rng.random() >= p:
            continue
        ta, tb = xf(op["ta"]), xf(op["tb"])
        if ta == int(ta) and tb == int(tb) and rng.random() < 0.5:
            op["targ"] = "int"
        else:
            op["targ"] = "tensor64"


def add_faults(rng, ops, rate):
    add_arg_types(rng, ops)
    """Attach cache faults to ops (in place). `rate` is the per-op probability of each kind."""
    if rate <= 0:
        return
    for op in ops:
        if op["op"] in ("env", "sib", "misc"):
            continue
        fs = []
        if rng.random() < rate:
            for _ in range(rng.choice([1, 1, 2, 4])):
                fs.append({"kind": "miss", "at": rng.randrange(0, 8)})
        if rng.random() < rate:
            fs.append({"kind": "drop", "at": rng.randrange(0, 5)})
        if rng.random() < rate * 0.5:
            fs.append({"kind": "blackout"})
        if fs:
            op["faults"] = fs


def apply_warm_rep(cfg, ops):
    """Attach the 'refine early' repetition count to the first non-empty query op (explicit in the case)."""
    w = cfg.get("warmup")
    if w is None or cfg["halfway"] or cfg["dt"] is not None:
        return
    span = xf(cfg["t1"]) - xf(cfg["t0"])
    for op in ops:
        if op["op"] == "q" and xf(op["tb"]) - xf(op["ta"]) >= span / (0.8 * designed_c(cfg) * 2048):
            op["rep"] = int(w)
            return


def gen_fault_rate(rng):
    return _pick(rng, [(0.0, 2), (0.01, 1), (0.05, 2), (0.2, 3), (0.6, 1)])


# ----------------------------------------------------------------------------------------
# execution


def _where(exc):
    """Innermost torchsde function on the traceback of exc (for violation classes)."""
    tb = traceback.extract_tb(exc.__traceback__)
    fn = "?"
    for fr in tb:
        if "torchsde" in fr.filename:
            fn = fr.name
    return fn


class CaseTooExpensive(PassThrough):
    """The history's running-average query length would make the *designed* size of the dependency tree exceed
    the bound this harness explores (cost proportional to that size is by design, see DESIGN C07). The run is
    truncated at this point; this is a bound on generated histories, never a verdict."""


def designed_c(cfg):
    cs = cfg["cache_size"]
    return 100 if cs is None else max(1, min(cs, 100))


MISC_COUNT = {"rejected": 0, "rejected_raised": 0, "props": 0, "repr": 0, "dump": 0, "misc_raised": 0}


def apply_env(op, ex=None):
    """Environment / non-query op. Returns True if it was one (callers `continue`)."""
    if op.get("op") == "misc":
        if ex is not None:
            _apply_misc(op, ex)
        return True
    if op.get("op") != "env":
        return False
    torch.set_default_dtype(DTYPES[op["default_dtype"]])
    return True


def _apply_misc(op, ex):
    """Non-query uses of the object. No oracle of its own: whatever these calls do (a rejected call is *expected* to
    raise; no listed property says what repr() prints), they are not queries, so the value / resource oracles of the
    surrounding history must hold exactly as if they had not happened."""
    import contextlib
    import io
    front, what = ex.b.front, op["what"]
    MISC_COUNT[what] += 1
    try:
        if what == "rejected":
            try:
                front(xf(op["ta"]), xf(op["tb"]))
            except (RuntimeError, ValueError):
                MISC_COUNT["rejected_raised"] += 1
        elif what == "props":
            for obj in (front, ex.b.interval):
                for name in ("shape", "dtype", "device", "levy_area_approximation", "entropy", "dt", "tol", "pool_size",
                             "cache_size", "halfway_tree"):
                    getattr(obj, name, None)
                if obj is not None and hasattr(obj, "size"):
                    obj.size()
        elif what == "repr":
            repr(front)
            str(front)
        elif what == "dump" and ex.b.interval is not None:
            with contextlib.redirect_stdout(io.StringIO()):
                ex.b.interval.display_binary_tree()
    except (HarnessError, Violation, PassThrough):
        raise
    except Exception:  # noqa
        MISC_COUNT["misc_raised"] += 1


def restore_env():
    torch.set_default_dtype(torch.float32)


class BMExec:
    """Executes ops against a Built object, recording every answer in the event log."""

    MAX_DESIGNED = MAX_DESIGNED

    def __init__(self, built: Built, log: EventLog, monitor_budget="auto"):
        self.b = built
        self.log = log
        self.n_len = 0
        self.sum_len = 0.0
        self.guard = built.cfg["dt"] is None and not built.cfg["halfway"]
        self.span = built.dom[1] - built.dom[0]
        self.c = designed_c(built.cfg)
        self.truncated = False
        self.monitor_budget = monitor_budget
        self.n_queries = 0
        self.max_depth = 0
        self.max_events = 0
        self.max_cache = 0
        self.sde_time = 0.0
        self.is_f32 = built.cfg["dtype"] == "float32"

    def raw(self, ta, tb, U, A, faults=None, idx=None, targ=None):
        """One call of the service. Returns dict W,U,A (tensors or None)."""
        b = self.b
        if self.guard and ta < tb:
            n2, s2 = self.n_len + 1, self.sum_len + (tb - ta)
            if n2 > 90 and self.span / (0.8 * (s2 / n2) * self.c) > self.MAX_DESIGNED:
                self.truncated = True
                raise CaseTooExpensive()
            self.n_len, self.sum_len = n2, s2
        b.plan.begin_op(faults)
        try:
            try:
                if targ == "tensor64":
                    ta_, tb_ = torch.tensor(ta, dtype=torch.float64), torch.tensor(tb, dtype=torch.float64)
                elif targ == "int":
                    ta_, tb_ = int(ta), int(tb)
                else:
                    ta_, tb_ = ta, tb
                if self.monitor_budget is not None:
                    budget = self.auto_budget() if self.monitor_budget == "auto" else self.monitor_budget
                    with seams.CallMonitor(budget, CPU_LIMIT_S) as mon:
                        out = b.front(ta_, tb_, return_U=U, return_A=A)
                    self.max_depth = max(self.max_depth, mon.max_depth)
                    self.max_events = max(self.max_events, mon.events)
                else:
                    out = b.front(ta_, tb_, return_U=U, return_A=A)
            except SimBudgetExceeded as e:
                raise Violation("stalled" if str(e).startswith("stalled") else "budget", {"ta": fx(ta), "tb": fx(tb), "msg": str(e)}, idx)
            except (HarnessError, Violation, PassThrough):
                raise
            except RecursionError as e:
                raise Violation(f"exception:RecursionError@{_where(e)}", {"ta": fx(ta), "tb": fx(tb)}, idx)
            except MemoryError:
                raise Violation("exception:MemoryError", {"ta": fx(ta), "tb": fx(tb)}, idx)
            except Exception as e:  # noqa
                raise Violation(f"exception:{type(e).__name__}@{_where(e)}",
                                {"ta": fx(ta), "tb": fx(tb), "msg": str(e)[:200]}, idx)
        finally:
            b.plan.end_op()
        self.n_queries += 1
        self.sde_time += abs(tb - ta)
        W = Uo = Ao = None
        if U and A:
            W, Uo, Ao = out
        elif U:
            W, Uo = out
        elif A:
            W, Ao = out
        else:
            W = out
        if b.cache is not None:
            self.max_cache = max(self.max_cache, b.cache.entries())
        res = {"W": W, "U": Uo, "A": Ao}
        self.log.add("ret", idx, fx(ta), fx(tb), U, A, tdig(W), tdig(Uo), tdig(Ao))
        return res

    def auto_budget(self):
        """Call-event budget of one service call: EVENTS0 + EVENTS_PER_NODE * N_designed (hang detector, >= 10x above
        the most expensive legitimate call; see DESIGN C07)."""
        cfg = self.b.cfg
        if cfg["halfway"]:
            nd = 0.0
        elif cfg["dt"] is not None:
            nd = self.span / (0.8 * xf(cfg["dt"]) * self.c)
        elif self.n_len >= 1:
            nd = self.span / (0.8 * (self.sum_len / self.n_len) * self.c)
        else:
            nd = 0.0
        return int(EVENTS0 + EVENTS_PER_NODE * min(nd, 4 * MAX_DESIGNED))

    def point(self, t, faults=None, idx=None):
        b = self.b
        if self.guard and b.dom[0] < t:
            n2, s2 = self.n_len + 1, self.sum_len + (t - b.dom[0])
            if n2 > 90 and self.span / (0.8 * (s2 / n2) * self.c) > self.MAX_DESIGNED:
                self.truncated = True
                raise CaseTooExpensive()
            self.n_len, self.sum_len = n2, s2
        b.plan.begin_op(faults)
        try:
            try:
                if self.monitor_budget is not None:
                    with seams.CallMonitor(self.auto_budget(), CPU_LIMIT_S) as mon:
                        out = b.front(t)
                    self.max_depth = max(self.max_depth, mon.max_depth)
                else:
                    out = b.front(t)
            except SimBudgetExceeded as e:
                raise Violation("stalled" if str(e).startswith("stalled") else "budget", {"t": fx(t), "msg": str(e)}, idx)
            except (HarnessError, Violation, PassThrough):
                raise
            except Exception as e:  # noqa
                raise Violation(f"exception:{type(e).__name__}@{_where(e)}", {"t": fx(t), "msg": str(e)[:200]}, idx)
        finally:
            b.plan.end_op()
        self.n_queries += 1
        self.log.add("pt", idx, fx(t), tdig(out))
        return out


# ----------------------------------------------------------------------------------------
# tolerances


def tol_for(cfg, scale):
    if cfg["dtype"] == "float32":
        return 2e-4 * scale
    return 1e-10 * scale


def maxabs(x):
    if x is None or x.numel() == 0:
        return 0.0
    return float(x.detach().abs().max())


def shape_ok(cfg, res):
    size = tuple(cfg["size"])
    W = res["W"]
    if tuple(W.shape) != size or W.dtype != DTYPES[cfg["dtype"]]:
        return f"W shape/dtype {tuple(W.shape)} {W.dtype}"
    if res["U"] is not None and (tuple(res["U"].shape) != size or res["U"].dtype != W.dtype):
        return f"U shape/dtype {tuple(res['U'].shape)}"
    if res["A"] is not None:
        # rank <= 1 samples have no Levy area; torchsde returns zeros shaped like W for a non-empty interval and
        # zeros of shape (*size, size[-1]) for an empty one. The properties do not fix that shape: accept both.
        want = [tuple(size)] if len(size) == 0 else [tuple(size), (*size, size[-1])] if len(size) == 1 else [(*size, size[-1])]
        if tuple(res["A"].shape) not in want or res["A"].dtype != W.dtype:
            return f"A shape/dtype {tuple(res['A'].shape)}"
    return None


# ----------------------------------------------------------------------------------------
# tree model (from the public display_binary_tree dump)


def dump_tree(interval):
    """[(depth, start, end)] in pre-order, parsed from display_binary_tree()."""
    buf = io.StringIO()
    with contextlib.redirect_stdout(buf):
        interval.display_binary_tree()
    out = []
    for line in buf.getvalue().splitlines():
        d = len(line) - len(line.lstrip(" "))
        body = line.strip()
        if not (body.startswith("(") and body.endswith(")")):
            raise HarnessError(f"cannot parse tree dump line {line!r}")
        a, b = body[1:-1].split(",")
        out.append((d, float(a), float(b)))
    return out


class TreeNode:
    __slots__ = ("a", "b", "kids")

    def __init__(self, a, b):
        self.a, self.b, self.kids = a, b, []


def parse_tree(dump):
    root = None
    stack = []
    for d, a, b in dump:
        n = TreeNode(a, b)
        if d == 0:
            root = n
            stack = [n]
        else:
            del stack[d:]
            stack[-1].kids.append(n)
            stack.append(n)
    return root


def canonical_pieces(root, ta, tb):
    """Stored pieces that make up [ta, tb] in the tree (descend from the root; exact match ->
    piece; straddling the split point -> both sides). None if the tree cannot express it."""
    out = []
    work = [(root, ta, tb)]
    while work:
        n, a, b = work.pop()
        if a == n.a and b == n.b:
            out.append((n.a, n.b))
            continue
        if len(n.kids) != 2:
            return None
        left, right = n.kids
        mid = left.b
        if b <= mid:
            work.append((left, a, b))
        elif a >= mid:
            work.append((right, a, b))
        else:
            work.append((right, mid, b))
            work.append((left, a, mid))
    return out


def tree_shape_hash(dump):
    import hashlib
    h = hashlib.sha256()
    for d, a, b in dump:
        h.update(f"{d}:{a.hex()}:{b.hex()};".encode())
    return h.hexdigest()[:16]


warnings.simplefilter("ignore")
