"""Seams the simulator owns: the value cache of the Brownian service (fault injection),
the normal generator (record / label / probe), numpy's default entropy, and a deterministic
call-depth / step-count monitor.
"""
import contextlib
import sys

import numpy as np
import torch

from .core import HarnessError, SimBudgetExceeded


# ----------------------------------------------------------------------------------------
# cache faults


class FaultPlan:
    """Per-op fault plan. `miss`: set of lookup indices (within the op) that miss although the
    key is present; `drop`: set of store indices that are discarded; `blackout`: every lookup
    misses. Counters are reset with begin_op()."""

    __slots__ = ("miss", "drop", "blackout", "n_lookup", "n_store", "fired")

    def __init__(self):
        self.miss = frozenset()
        self.drop = frozenset()
        self.blackout = False
        self.n_lookup = 0
        self.n_store = 0
        self.fired = {"miss": 0, "drop": 0, "blackout": 0}

    def begin_op(self, faults):
        miss, drop, blackout = set(), set(), False
        for f in faults or ():
            k = f["kind"]
            if k == "miss":
                miss.add(int(f["at"]))
            elif k == "drop":
                drop.add(int(f["at"]))
            elif k == "blackout":
                blackout = True
            else:
                raise HarnessError(f"unknown fault kind {k}")
        self.miss, self.drop, self.blackout = frozenset(miss), frozenset(drop), blackout
        self.n_lookup = 0
        self.n_store = 0

    def end_op(self):
        self.miss = self.drop = frozenset()
        self.blackout = False


class FaultyCache:
    """Wraps the service's own cache object. A planned lookup raises KeyError although the key
    may be present (a cache may always miss); a planned store is discarded (a cache may refuse
    to keep an entry). Everything else is forwarded to the real object, so natural eviction
    and its bound stay real."""

    def __init__(self, inner, plan: FaultPlan):
        self._inner = inner
        self._plan = plan

    def __getitem__(self, key):
        p = self._plan
        i = p.n_lookup
        p.n_lookup = i + 1
        if p.blackout:
            p.fired["blackout"] += 1
            raise KeyError(key)
        if i in p.miss:
            # only counts as "fired" if the key really was there (otherwise a no-op fault)
            try:
                self._inner[key]
                p.fired["miss"] += 1
            except KeyError:
                pass
            raise KeyError(key)
        return self._inner[key]

    def __setitem__(self, key, value):
        p = self._plan
        i = p.n_store
        p.n_store = i + 1
        if i in p.drop:
            p.fired["drop"] += 1
            return
        self._inner[key] = value

    def __len__(self):
        try:
            return len(self._inner)
        except TypeError:
            return 0

    def __contains__(self, key):
        try:
            self._inner[key]
            return True
        except KeyError:
            return False

    def __getattr__(self, name):
        # Transparency: any other mapping method exists on the wrapper exactly when the real object has it (a
        # cache_size=0 mapping without `.get` must still raise AttributeError; a dict-based cache asked with `.get`
        # must work). Read-style methods go through the faulting __getitem__, everything else is forwarded.
        inner = self.__dict__.get("_inner")
        if inner is None or name.startswith("__"):
            raise AttributeError(name)
        attr = getattr(inner, name)  # AttributeError here = the real object's own behaviour
        if name == "get":
            def get(key, default=None):
                try:
                    return self[key]
                except KeyError:
                    return default
            return get
        if name == "setdefault":
            def setdefault(key, default=None):
                try:
                    return self[key]
                except KeyError:
                    self[key] = default
                    return default
            return setdefault
        return attr

    def entries(self):
        """Number of entries held by the real cache (0 if it cannot say)."""
        try:
            return len(self._inner)
        except TypeError:
            return 0


def _all_slots(obj):
    names = []
    for klass in type(obj).__mro__:
        s = klass.__dict__.get("__slots__", ())
        if isinstance(s, str):
            s = (s,)
        names.extend(s)
    d = getattr(obj, "__dict__", None)
    if d:
        names.extend(d.keys())
    return names


def find_inner_interval(bm):
    """The BrownianInterval behind a front end (found by scanning attributes, not by name)."""
    from torchsde._brownian.brownian_interval import BrownianInterval
    seen = set()
    cur = bm
    for _ in range(4):
        if isinstance(cur, BrownianInterval):
            return cur
        if id(cur) in seen:
            break
        seen.add(id(cur))
        nxt = None
        for name in _all_slots(cur):
            try:
                v = getattr(cur, name)
            except AttributeError:
                continue
            if hasattr(v, "levy_area_approximation") and callable(v) and v is not cur:
                nxt = v
                break
        if nxt is None:
            return None
        cur = nxt
    return None


def find_cache_attr(interval):
    """Name of the attribute holding the value cache: a non-tensor object with both
    __getitem__ and __setitem__. None if there is no such thing."""
    found = []
    for name in _all_slots(interval):
        try:
            v = getattr(interval, name)
        except AttributeError:
            continue
        if torch.is_tensor(v) or isinstance(v, (tuple, list, str)):
            continue
        if hasattr(v, "__getitem__") and hasattr(v, "__setitem__"):
            found.append(name)
    if len(found) == 1:
        return found[0]
    return None


def install_faulty_cache(bm, plan: FaultPlan):
    """Returns (wrapper or None, interval or None). None => fault kind unavailable (recorded, never alarmed)."""
    interval = find_inner_interval(bm)
    if interval is None:
        return None, None
    name = find_cache_attr(interval)
    if name is None:
        return None, interval
    inner = getattr(interval, name)
    if isinstance(inner, FaultyCache):
        return inner, interval
    w = FaultyCache(inner, plan)
    try:
        setattr(interval, name, w)
    except AttributeError:
        return None, interval
    return w, interval


# ----------------------------------------------------------------------------------------
# randomness seam

_real_randn = torch.randn


class RandnSeam:
    """Replaces torch.randn while active. mode:
       'record'  pass through; log (size, seed)
       'label'   C04: unit label vectors along axis 0 (see props/c04.py)
       'custom'  call `fn(size, seed, kwargs)`; returning None falls back to the real generator
    The global (generator-less) torch RNG is never consulted by the harness; a generator-less
    call made by the code under test is served from a fixed local generator so that replay
    stays exact."""

    def __init__(self, mode="record", fn=None):
        self.mode = mode
        self.fn = fn
        self.calls = []  # (size tuple, seed)
        self.n = 0
        self._fallback = torch.Generator().manual_seed(1234567)

    def _randn(self, *size, **kw):
        if len(size) == 1 and isinstance(size[0], (tuple, list, torch.Size)):
            size = tuple(size[0])
        size = tuple(int(s) for s in size)
        gen = kw.get("generator")
        seed = int(gen.initial_seed()) if gen is not None else None
        self.n += 1
        if self.mode == "record":
            self.calls.append((size, seed))
        if self.fn is not None:
            out = self.fn(size, seed, kw)
            if out is not None:
                return out
        if gen is None:
            kw = dict(kw)
            kw["generator"] = self._fallback
        return _real_randn(size, **kw)

    def __enter__(self):
        if torch.randn is not _real_randn:
            raise HarnessError("RandnSeam nested")
        torch.randn = self._randn
        return self

    def __exit__(self, *exc):
        torch.randn = _real_randn
        return False


# ----------------------------------------------------------------------------------------
# entropy seam (np.random.randint used when entropy=None)

_real_randint = np.random.randint


@contextlib.contextmanager
def entropy_seam(rng):
    """np.random.randint draws from the simulator PRNG instead of numpy's global state."""
    calls = []

    def randint(low, high=None, *a, **k):
        if high is None:
            low, high = 0, low
        v = rng.randrange(int(low), int(high))
        calls.append(v)
        return v

    np.random.randint = randint
    try:
        yield calls
    finally:
        np.random.randint = _real_randint


# ----------------------------------------------------------------------------------------
# depth / step monitor


class CallMonitor:
    """sys.setprofile hook: counts Python call events and the maximum Python call depth above the
    point where it was armed. Raises SimBudgetExceeded (deterministically: a pure count) when
    the event budget is exhausted. Wall clocks are never read."""

    def __init__(self, budget=None, cpu_limit=None):
        self.budget = budget
        # Backstop for work that happens inside C calls and is therefore invisible to the event count (seen with a
        # seeded change: SeedSequence hashing ever longer spawn keys while the tree degenerates into a chain): CPU
        # seconds of this process spent in the monitored call, polled every 2048 call events. It reads a clock, so it is
        # deliberately far (>= 30x) above the slowest legitimate call and only ever turns a stall into a verdict.
        self.cpu_limit = cpu_limit
        self.t_cpu = 0.0
        self.events = 0
        self.depth = 0
        self.max_depth = 0
        self._armed = False

    def _hook(self, frame, event, arg):
        if event == "call":
            self.depth += 1
            self.events += 1
            if self.depth > self.max_depth:
                self.max_depth = self.depth
            if self.budget is not None and self.events > self.budget:
                # disarm first so that unwinding is not itself counted/aborted
                sys.setprofile(None)
                self._armed = False
                raise SimBudgetExceeded(f"{self.events} call events > budget {self.budget}")
            if self.cpu_limit is not None and (self.events & 2047) == 0:
                import time
                if time.process_time() - self.t_cpu > self.cpu_limit:
                    sys.setprofile(None)
                    self._armed = False
                    raise SimBudgetExceeded(f"stalled: more than {self.cpu_limit:.0f} CPU seconds in one call "
                                            f"({self.events} call events so far)")
        elif event == "return":
            self.depth -= 1

    def __enter__(self):
        import time
        self.t_cpu = time.process_time()
        self.events = 0
        self.depth = 1  # our own return from __enter__ is the first event seen
        self.max_depth = 0
        self._armed = True
        sys.setprofile(self._hook)
        return self

    def __exit__(self, *exc):
        sys.setprofile(None)
        self._armed = False
        return False


def retained_tensors(root, limit=2_000_000):
    """Number of floating-point tensors reachable from `root` through instance attributes (`__dict__`, `__slots__`) and
    plain containers — what the object keeps alive, whatever the attribute is called. Used by C07: values retained
    outside the bounded cache are cached entries in all but name."""
    import torch
    seen = set()
    stack = [root]
    n = 0
    visited = 0
    while stack and visited < limit:
        o = stack.pop()
        if id(o) in seen:
            continue
        seen.add(id(o))
        visited += 1
        if isinstance(o, torch.Tensor):
            if o.is_floating_point() and o.numel() >= 1:
                n += 1
            continue
        if isinstance(o, (str, bytes, int, float, bool, type(None), type, torch.dtype, torch.device)) or callable(o) and not hasattr(o, "__dict__") and not hasattr(o, "__slots__"):
            continue
        if isinstance(o, dict):
            stack.extend(o.keys())
            stack.extend(o.values())
            d = getattr(o, "__dict__", None)  # a dict subclass may carry attributes of its own
            if isinstance(d, dict):
                stack.extend(d.values())
            continue
        if isinstance(o, (list, tuple, set, frozenset)):
            stack.extend(o)
            continue
        mod = getattr(type(o), "__module__", "") or ""
        if not (mod.startswith("torchsde") or mod.startswith("sim.") or mod == "collections"):
            if isinstance(o, FaultyCache):
                pass
            else:
                continue
        if isinstance(o, FaultyCache):
            stack.append(o._inner)
            continue
        d = getattr(o, "__dict__", None)
        if isinstance(d, dict):
            stack.extend(d.values())
        for name in _all_slots(o):
            try:
                stack.append(getattr(o, name))
            except AttributeError:
                pass
        if isinstance(o, dict):
            stack.extend(o.values())
    return n
