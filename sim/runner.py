"""Batch execution, evidence, minimisation and replay confirmation — generic over properties.

A property module provides:
  PROP, RUNS {tier: n}, RULE, ASSUMPTIONS, REAL_VS_STUB
  gen_case(seed, tier, idx) -> case (explicit JSON)
  run_case(case, keep_log=False) -> {"violation": None | {...}, "digest": str, "stats": {...}}
  simplify(case) -> iterable of smaller candidate cases   (optional)
  nontrivial(stats) -> bool
  sample_of(case, stats) -> JSON-able summary shown in the evidence file
  directed(tier) -> list of cases that are always run first (optional)
"""
import concurrent.futures as cf
import copy
import faulthandler
import importlib
import json
import multiprocessing as mp
import os
import resource
import subprocess
import sys
import time
import traceback

from . import known
from .core import VERIF, HarnessError, Violation, canon_hash, read_replay, run_seed, write_replay

PY = sys.executable
CLI = os.path.join(VERIF, "sim", "cli.py")
NPROC = int(os.environ.get("VERIF_PROCS", "16"))
MEM_LIMIT = int(float(os.environ.get("VERIF_MEM_GB", "6")) * (1 << 30))


def load(prop):
    return importlib.import_module(f"sim.props.{prop.lower()}")


def _init_worker():
    import torch
    torch.set_num_threads(1)
    try:
        resource.setrlimit(resource.RLIMIT_AS, (MEM_LIMIT, MEM_LIMIT))
    except (ValueError, OSError):
        pass
    import warnings
    warnings.simplefilter("ignore")


def _safe_run(mod, case, keep_log=False):
    """run_case with harness-exception classification: anything that is not a Violation raised
    by an oracle is a harness error, reported apart from property violations."""
    try:
        return mod.run_case(case, keep_log=keep_log)
    except Violation as v:  # raised outside the module's own handler (e.g. by the constructor)
        return {"violation": v.to_json(), "digest": "", "stats": {}}
    except HarnessError as e:
        return {"harness_error": f"HarnessError: {e}", "violation": None, "digest": "", "stats": {}}
    except MemoryError:
        import gc
        gc.collect()
        return {"harness_error": "MemoryError (memory limit of the worker reached inside run_case)", "violation": None,
                "digest": "", "stats": {}}
    except Exception as e:  # noqa
        return {"harness_error": "".join(traceback.format_exception(e))[-3000:], "violation": None,
                "digest": "", "stats": {}}


def _batch(args):
    prop, tier, seed, idxs, batch_timeout, directed = args
    faulthandler.dump_traceback_later(batch_timeout, exit=True)
    try:
        mod = load(prop)
        out = []
        for idx in idxs:
            if directed:
                case = mod.directed(tier)[idx]
            else:
                try:
                    case = mod.gen_case(run_seed(seed, prop, idx), tier, idx)
                except Exception as e:  # noqa
                    out.append({"idx": idx, "digest": "", "stats": {}, "violation": None, "case_hash": "", "directed": False,
                                "harness_error": "gen_case: " + "".join(traceback.format_exception(e))[-3000:]})
                    continue
                case.setdefault("property", prop)
                case.setdefault("verif_seed", seed)
                case.setdefault("run_index", idx)
                case.setdefault("tier", tier)
            res = _safe_run(mod, case)
            res.setdefault("stats", {})
            if res.get("violation") or res.get("harness_error"):
                import gc
                gc.collect()  # a failing run may leave a huge cyclic object graph (interval tree) behind
            case_hash = ""
            for _attempt in range(2):
                try:
                    case_hash = canon_hash({k: case[k] for k in case if k not in ("run_index", "verif_seed")})
                    break
                except MemoryError:
                    import gc
                    gc.collect()
            rec = {"idx": idx, "digest": res.get("digest"), "stats": res.get("stats", {}),
                   "violation": res.get("violation"), "harness_error": res.get("harness_error"),
                   "case_hash": case_hash, "directed": bool(directed)}
            if res.get("violation") or res.get("harness_error") or idx % 97 == 0 or directed:
                rec["case"] = case
                rec["sample"] = mod.sample_of(case, res.get("stats", {}))
            out.append(rec)
        return out
    finally:
        faulthandler.cancel_dump_traceback_later()


def _merge_counts(dst, src):
    for k, v in (src or {}).items():
        if isinstance(v, (int, float)):
            dst[k] = dst.get(k, 0) + v


def _child_eval(mod, case, conn):
    try:
        r = _safe_run(mod, case)
        conn.send((r.get("violation") or {}).get("class"))
    except BaseException:  # noqa
        try:
            conn.send(None)
        except Exception:  # noqa
            pass
    finally:
        conn.close()


def eval_class(mod, case, timeout):
    """Violation class of `case` (or None), evaluated in a forked child that is killed after `timeout` seconds: a
    candidate that hangs or exhausts memory must not take the minimiser down with it. 'TIMEOUT' if killed."""
    ctx = mp.get_context("fork")
    parent, child = ctx.Pipe(duplex=False)
    p = ctx.Process(target=_child_eval, args=(mod, case, child))
    p.start()
    child.close()
    out = "TIMEOUT"
    if parent.poll(timeout):
        try:
            out = parent.recv()
        except EOFError:
            out = None
    if p.is_alive():
        p.kill()
    p.join(5)
    parent.close()
    return out


def minimise(mod, case, vclass, max_replays=400, log=None):
    """ddmin over case['ops'] then module-specific simplifications; a candidate is kept only if
    the same violation class recurs."""
    budget = [max_replays]
    # wall cap: only bounds how small the replay file gets, never whether it reproduces (the file is explicit)
    t_end = time.time() + float(os.environ.get("VERIF_MINIMISE_S", "600"))

    per_candidate = float(os.environ.get("VERIF_CANDIDATE_S", "120"))

    def fails(c):
        if budget[0] <= 0 or time.time() > t_end:
            budget[0] = min(budget[0], 0)
            return False
        budget[0] -= 1
        return eval_class(mod, c, per_candidate) == vclass

    best = copy.deepcopy(case)
    for key in getattr(mod, "OPS_KEYS", ("ops",)):
        ops = best.get(key)
        if not isinstance(ops, list) or len(ops) <= 1:
            continue
        n = 2
        while len(ops) >= 2 and budget[0] > 0:
            chunk = max(1, len(ops) // n)
            reduced = False
            for i in range(0, len(ops), chunk):
                cand_ops = ops[:i] + ops[i + chunk:]
                if not cand_ops:
                    continue
                cand = copy.deepcopy(best)
                cand[key] = cand_ops
                if fails(cand):
                    best, ops = cand, cand_ops
                    n = max(n - 1, 2)
                    reduced = True
                    break
            if not reduced:
                if chunk == 1:
                    break
                n = min(n * 2, len(ops))
    progress = True
    while progress and budget[0] > 0 and hasattr(mod, "simplify"):
        progress = False
        for cand in mod.simplify(best):
            if budget[0] <= 0:
                break
            if fails(cand):
                best = cand
                progress = True
                break
    best["minimised"] = {"replays_used": max_replays - budget[0],
                         "ops_before": {k: len(case.get(k, [])) for k in getattr(mod, "OPS_KEYS", ("ops",))
                                        if isinstance(case.get(k), list)},
                         "ops_after": {k: len(best.get(k, [])) for k in getattr(mod, "OPS_KEYS", ("ops",))
                                       if isinstance(best.get(k), list)}}
    return best


def fresh_replay(prop, path, timeout=900):
    """Replay a file in a fresh interpreter. Returns (exit status, violation class or None)."""
    env = dict(os.environ)
    env["PYTHONHASHSEED"] = "0"
    p = subprocess.run([PY, CLI, prop, "--replay", path, "--json"], capture_output=True, text=True,
                       timeout=timeout, env=env)
    vclass = None
    for line in p.stdout.splitlines():
        if line.startswith("REPLAY-RESULT "):
            try:
                vclass = json.loads(line[len("REPLAY-RESULT "):]).get("class")
            except ValueError:
                pass
    return p.returncode, vclass, p.stdout[-2000:] + p.stderr[-2000:]


def replay(prop, path, as_json=False, verbose=False):
    mod = load(prop)
    _init_worker()
    case = read_replay(path)
    want = (case.get("violation") or {}).get("class")
    case = {k: v for k, v in case.items() if k not in ("violation", "digest")}
    res = _safe_run(mod, case, keep_log=verbose)
    if res.get("harness_error"):
        print("HARNESS-ERROR during replay:\n" + res["harness_error"])
        return 2
    v = res.get("violation")
    if verbose:
        for r in res.get("log", []):
            print(r)
    if as_json:
        print("REPLAY-RESULT " + json.dumps({"class": v["class"] if v else None, "digest": res.get("digest")}))
    if v:
        print(f"replayed: violation class={v['class']} at_op={v.get('at_op')} detail={json.dumps(v.get('detail'))[:600]}")
        if want and want != v["class"]:
            print(f"note: recorded class was {want}")
        kf = known.match(prop, case, v)
        if kf is not None:
            print(f"KNOWN-FINDING: property={prop} {kf['what']}")
            return 0
        print(f"VIOLATION property={prop} replay={path}")
        return 1
    print("replayed: no violation" + (f" (recorded class was {want})" if want else ""))
    return 0


def run(prop, tier, seed, n_override=None):
    try:
        return _run(prop, tier, seed, n_override)
    except Exception as e:  # noqa  -- never let a harness crash look like exit 1
        print(f"HARNESS-ERROR property={prop}: {''.join(traceback.format_exception(e))[-3000:]}")
        return 2


def _run(prop, tier, seed, n_override=None):
    t_start = time.time()
    mod = load(prop)
    n = n_override if n_override is not None else mod.RUNS[tier]
    deadline = float(os.environ.get("VERIF_DEADLINE_S", mod.DEADLINE.get(tier, 0) if hasattr(mod, "DEADLINE") else 0) or 0)
    batch_timeout = int(os.environ.get("VERIF_BATCH_TIMEOUT_S", getattr(mod, "BATCH_TIMEOUT", {}).get(tier, 900 if tier == "quick" else 3000)))
    per_batch = max(1, min(getattr(mod, "BATCH", {}).get(tier, 25), (n + NPROC * 4 - 1) // (NPROC * 4)))
    directed = mod.directed(tier) if hasattr(mod, "directed") else []
    jobs = []
    for i in range(len(directed)):
        jobs.append((prop, tier, seed, [i], batch_timeout, True))
    idxs = list(range(n))
    for i in range(0, n, per_batch):
        jobs.append((prop, tier, seed, idxs[i:i + per_batch], batch_timeout, False))

    agg = {"faults": {}, "probes": {}, "counters": {}, "maxima": {}}
    states = set()
    nontrivial_hashes = set()
    all_hashes = set()
    samples = []
    evaluations = 0
    known_hits = {}
    first_violation = None
    harness_errors = []
    skipped_batches = 0
    ctx = mp.get_context("fork")
    # Warm up in the parent before forking: torch initialises a lot lazily on first use, and paying for that in 16
    # freshly forked workers at once costs ~20 s of CPU each. Results of the warm-up runs are discarded.
    import torch
    torch.set_num_threads(1)
    import warnings
    warnings.simplefilter("ignore")
    import signal

    class _WarmTimeout(BaseException):
        pass

    def _on_alarm(signum, frame):
        raise _WarmTimeout()

    old_handler = signal.signal(signal.SIGALRM, _on_alarm)
    signal.setitimer(signal.ITIMER_REAL, float(os.environ.get("VERIF_WARM_S", "25")))
    try:
        for w in range(min(int(os.environ.get("VERIF_WARM", "8")), n)):
            wc = mod.gen_case(run_seed(seed, prop, w), tier, w)
            if not getattr(mod, "WARMUP_SKIP", None) or not mod.WARMUP_SKIP(wc):
                _safe_run(mod, wc)
    except _WarmTimeout:
        # The alarm may have interrupted a lazy import inside torch (seen once in the soak, seed 704: a half-initialised
        # `sympy` in sys.modules made every forked worker raise AttributeError from autograd - exit 2, a false harness
        # error). A process that was interrupted at an arbitrary point is not a safe parent to fork from: start over in
        # a fresh interpreter, without warm-up.
        signal.setitimer(signal.ITIMER_REAL, 0)
        print("note: warm-up exceeded its time limit; restarting without warm-up", flush=True)
        if os.environ.get("VERIF_WARM") != "0" and sys.argv and os.path.exists(sys.argv[0]):
            os.environ["VERIF_WARM"] = "0"
            os.execv(sys.executable, [sys.executable] + sys.argv)
    except Exception as e:  # noqa
        print("warm-up failed:", repr(e))
    finally:
        signal.setitimer(signal.ITIMER_REAL, 0)
        signal.signal(signal.SIGALRM, old_handler)
    import gc
    gc.collect()
    t_pool = time.time()
    try:
        with cf.ProcessPoolExecutor(max_workers=NPROC, mp_context=ctx, initializer=_init_worker) as ex:
            futs = []
            pending = list(jobs)
            in_flight = {}
            # submit lazily so that a deadline or an early violation stops new work
            while pending or in_flight:
                while pending and len(in_flight) < NPROC * 2:
                    if first_violation is not None or harness_errors:
                        pending.clear()
                        break
                    if deadline and time.time() - t_pool > deadline:
                        skipped_batches += len(pending)
                        pending.clear()
                        break
                    j = pending.pop(0)
                    in_flight[ex.submit(_batch, j)] = j
                if not in_flight:
                    break
                done, _ = cf.wait(list(in_flight), return_when=cf.FIRST_COMPLETED)
                for f in done:
                    in_flight.pop(f)
                    for rec in f.result():
                        evaluations += 1
                        st = rec["stats"] or {}
                        _merge_counts(agg["faults"], st.get("faults"))
                        _merge_counts(agg["probes"], st.get("probes"))
                        _merge_counts(agg["counters"], st.get("counters"))
                        for k, v in (st.get("maxima") or {}).items():
                            agg["maxima"][k] = max(agg["maxima"].get(k, 0), v)
                        for s in st.get("states", ()):
                            states.add(s)
                        all_hashes.add(rec["case_hash"])
                        if mod.nontrivial(st):
                            nontrivial_hashes.add(rec["case_hash"])
                        if rec.get("harness_error"):
                            harness_errors.append((rec["idx"], rec["harness_error"], rec.get("case")))
                        v = rec.get("violation")
                        if v:
                            kf = known.match(prop, rec["case"], v)
                            if kf is not None:
                                known_hits[kf["id"]] = known_hits.get(kf["id"], 0) + 1
                            elif first_violation is None or (rec["directed"], rec["idx"]) < first_violation[0]:
                                first_violation = ((rec["directed"], rec["idx"]), rec)
                        elif "sample" in rec and len(samples) < 6:
                            samples.append(rec["sample"])
    except cf.process.BrokenProcessPool:
        print(f"HARNESS-ERROR property={prop}: a worker died (timeout {batch_timeout}s, memory limit, or crash)")
        if first_violation is None:
            return 2
        # a violation had already been found and recorded: it is minimised, confirmed in a fresh interpreter and
        # reported below; the dead worker (typically another run hitting the same defect, e.g. a hang) is noted only
        print("note: continuing with the violation found before the worker died")

    wall = time.time() - t_start
    exit_code = 0
    replay_path = None
    if evaluations == 0 and not harness_errors:
        print(f"HARNESS-ERROR property={prop}: no run was executed (nothing explored) - refusing to report success")
        return 2
    if harness_errors and first_violation is None:
        idx, msg, case = harness_errors[0]
        print(f"HARNESS-ERROR property={prop} run_index={idx}:\n{msg}")
        if case is not None:
            p = os.path.join(VERIF, "replays", f"harness-{prop}-{seed}-{idx}.json")
            write_replay(p, case, {"class": "harness_error", "detail": msg[-500:]}, "")
            print(f"harness case written to {p}")
        exit_code = 2
    elif first_violation is not None:
        if harness_errors:
            print(f"note: {len(harness_errors)} run(s) also ended in a harness error (e.g. memory limit); first: "
                  f"run_index={harness_errors[0][0]} {harness_errors[0][1][-200:]!r}")
        rec = first_violation[1]
        case, v = rec["case"], rec["violation"]
        print(f"violation found: run_index={rec['idx']} class={v['class']} detail={json.dumps(v.get('detail'))[:400]}")
        _init_worker()
        small = minimise(mod, case, v["class"])
        res = _safe_run(mod, small)
        v2 = res.get("violation") or v
        replay_path = os.path.join(VERIF, "replays", f"{prop}-{seed}-{'d' if rec['directed'] else ''}{rec['idx']}.json")
        write_replay(replay_path, small, v2, res.get("digest", ""))
        rc, vclass, out = fresh_replay(prop, replay_path)
        if rc == 1 and vclass == v["class"]:
            print(f"minimised: {small.get('minimised')}")
            print(f"VIOLATION property={prop} replay={replay_path}")
            exit_code = 1
        else:
            print(f"HARNESS-NONDETERMINISM property={prop}: fresh replay of {replay_path} gave exit {rc} class {vclass}"
                  f" (expected 1, {v['class']})\n{out}")
            exit_code = 2

    # known findings: one line per listed open finding of this property
    for kf in known.open_findings(prop):
        print(f"KNOWN-FINDING: property={prop} {kf['what']} [hit {known_hits.get(kf['id'], 0)}x in this run]")

    coverage = {
        "evaluations": evaluations,
        "distinct_nontrivial": len(nontrivial_hashes),
        "distinct_cases": len(all_hashes),
        "rule": mod.RULE,
        "samples": samples[:6],
        "faults_fired": agg["faults"],
        "probes_hit": agg["probes"],
        "probes_stuck_at_zero": sorted(k for k in getattr(mod, "PROBES", ()) if not agg["probes"].get(k)),
        "counters": agg["counters"],
        "maxima": agg["maxima"],
        "distinct_states": len(states),
        "distinct_states_measure": getattr(mod, "STATE_MEASURE", ""),
        "runs_per_hour": round(evaluations / max(wall, 1e-9) * 3600),
        "ops_per_hour": round(agg["counters"].get("ops", 0) / max(wall, 1e-9) * 3600),
        "simulated_time_covered": agg["counters"].get("sde_time", 0.0),
        "simulated_time_note": "sum of SDE time queried/integrated; torchsde has no other clock",
        "real_vs_stub": getattr(mod, "REAL_VS_STUB", {}),
        "known_findings_hit": known_hits,
        "skipped_batches_deadline": skipped_batches,
        "workers": NPROC,
        "exhaustive": False,
    }
    ev = {
        "property_id": prop,
        "tier": tier,
        "seed": int(seed),
        "level": "exploration",
        "coverage": coverage,
        "assumptions": list(mod.ASSUMPTIONS),
        "wall_s": round(wall, 2),
        "violations": 1 if exit_code == 1 else 0,
    }
    if replay_path:
        ev["coverage"]["replay"] = replay_path
    from .core import REPO
    if os.path.realpath(REPO) != "/repo":
        print(f"note: VERIF_REPO={REPO} is a scratch tree: evidence file not written")
    elif exit_code != 2:
        os.makedirs(os.path.join(VERIF, "evidence"), exist_ok=True)
        p = os.path.join(VERIF, "evidence", f"{prop}.json")
        with open(p + ".tmp", "w") as f:
            json.dump(ev, f, indent=1, sort_keys=True, default=str)
            f.write("\n")
        os.replace(p + ".tmp", p)
    stuck = coverage["probes_stuck_at_zero"]
    print(f"{prop} {tier} seed={seed}: runs={evaluations} nontrivial_distinct={len(nontrivial_hashes)} "
          f"states={len(states)} faults={agg['faults']} wall={wall:.1f}s exit={exit_code}"
          + (f" probes_stuck_at_zero={stuck}" if stuck else ""))
    return exit_code
