"""Known findings: /verif/known_findings.jsonl, committed, read-only at run time.

One JSON object per line:
  {"id", "status": "open"|"fixed", "property", "what", "class_regex", "where": {...}, "commit"}
An *open* finding suppresses exactly the violations whose class matches `class_regex` AND whose
case/violation satisfy the property module's `finding_applies(finding, case, violation)` predicate
(the specific input / call site that fails) — so a different violation of the same property is still
reported. A *fixed* entry suppresses nothing.
"""
import importlib
import json
import os
import re

from .core import VERIF

_PATH = os.path.join(VERIF, "known_findings.jsonl")
_cache = None


def _load():
    global _cache
    if _cache is None:
        out = []
        if os.path.exists(_PATH):
            with open(_PATH) as f:
                for line in f:
                    line = line.strip()
                    if line and not line.startswith("#"):
                        out.append(json.loads(line))
        _cache = out
    return _cache


def open_findings(prop):
    return [k for k in _load() if k.get("property") == prop and k.get("status") == "open"]


def match(prop, case, violation):
    for kf in open_findings(prop):
        if not re.search(kf.get("class_regex", "$^"), violation.get("class", "")):
            continue
        mod = importlib.import_module(f"sim.props.{prop.lower()}")
        pred = getattr(mod, "finding_applies", None)
        if pred is None:
            continue  # no predicate -> never suppress
        try:
            ok = pred(kf, case, violation)
        except Exception:  # a broken predicate must never hide a violation
            ok = False
        if ok:
            return kf
    return None
