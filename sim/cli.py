"""Command line: check <Cxx> quick|thorough | check <Cxx> --replay <file> | check selftest determinism"""
import os
import sys

HERE = os.path.dirname(os.path.dirname(os.path.abspath(__file__)))
if HERE not in sys.path:
    sys.path.insert(0, HERE)

# One stable hash seed for every interpreter the harness starts (nothing depends on it; the
# determinism self-test re-runs samples under a different value to prove that).
if os.environ.get("PYTHONHASHSEED") is None or os.environ.get("OMP_NUM_THREADS") != "1":
    os.environ.setdefault("PYTHONHASHSEED", "0")
    # one torch thread per worker process: parallelism comes from the process pool (and thread count must not be a
    # source of nondeterminism)
    os.environ["OMP_NUM_THREADS"] = "1"
    os.environ["MKL_NUM_THREADS"] = "1"
    os.execv(sys.executable, [sys.executable] + sys.argv)

from sim.core import import_torchsde  # noqa: E402

import_torchsde()


def main(argv):
    if len(argv) < 2:
        print(__doc__)
        return 2
    what = argv[0]
    if what == "selftest":
        from sim import selftest
        return selftest.main(argv[1:])
    prop = what.upper()
    from sim import runner
    if argv[1] == "--replay":
        return runner.replay(prop, argv[2], as_json="--json" in argv, verbose="--verbose" in argv)
    tier = argv[1] if argv[1] in ("quick", "thorough") else os.environ.get("VERIF_TIER", "")
    if tier not in ("quick", "thorough"):
        print(f"unknown tier {tier}")
        return 2
    seed = int(os.environ.get("VERIF_SEED", "0"))
    n = None
    if "--runs" in argv:
        n = int(argv[argv.index("--runs") + 1])
    return runner.run(prop, tier, seed, n_override=n)


if __name__ == "__main__":
    sys.exit(main(sys.argv[1:]))
