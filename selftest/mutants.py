#!/venv/bin/python
"""Sensitivity / specificity self-test, run by hand:  selftest/mutants.py [ids...]

Each mutant is a textual edit applied to a scratch copy of /repo's torchsde (under /tmp, deleted afterwards); the owning
check's quick tier is run with VERIF_REPO=<copy> and must print a VIOLATION (kind 'break') or stay green (kind 'benign').
Results are written to selftest/results.json. Nothing here touches /repo.
"""
import json
import os
import shutil
import subprocess
import sys
import time

HERE = os.path.dirname(os.path.abspath(__file__))
VERIF = os.path.dirname(HERE)
BI = "torchsde/_brownian/brownian_interval.py"
DER = "torchsde/_brownian/derived.py"
BS = "torchsde/_core/base_solver.py"
AS = "torchsde/_core/adaptive_stepping.py"
IN = "torchsde/_core/interp.py"
SD = "torchsde/_core/sdeint.py"
RH = "torchsde/_core/methods/reversible_heun.py"

M = [
    # id, property, kind, file, old, new
    ("m03a", "C03", "break", BI, "second_coeff = 6 * first_coeff * right_diff * h_reciprocal", "second_coeff = 5 * first_coeff * right_diff * h_reciprocal"),
    ("m03b", "C03", "break", BI, "term2 = (interval._start - ta) * (H - 0.5 * Wi)", "term2 = (interval._start - ta) * (H + 0.5 * Wi)"),
    ("m03c", "C03", "break", BI, "A = A + Ai + 0.5 * (W.unsqueeze(-1) * Wi.unsqueeze(-2) - Wi.unsqueeze(-1) * W.unsqueeze(-2))",
     "A = A + Ai - 0.5 * (W.unsqueeze(-1) * Wi.unsqueeze(-2) - Wi.unsqueeze(-1) * W.unsqueeze(-2))"),
    ("m03d", "C03", "break", DER, "        if tb is None and not return_U and not return_A:\n            out = out + self._w0\n        return out\n\n    def __repr__(self):\n        return f\"{self.__class__.__name__}(interval={self._interval})\"\n\n    @property\n    def dtype(self):\n        return self._interval.dtype\n\n    @property\n    def device(self):\n        return self._interval.device\n\n    @property\n    def shape(self):\n        return self._interval.shape\n\n    @property\n    def levy_area_approximation(self):\n        return self._interval.levy_area_approximation\n\n\nclass BrownianTree",
     "        return out\n\n    def __repr__(self):\n        return f\"{self.__class__.__name__}(interval={self._interval})\"\n\n    @property\n    def dtype(self):\n        return self._interval.dtype\n\n    @property\n    def device(self):\n        return self._interval.device\n\n    @property\n    def shape(self):\n        return self._interval.shape\n\n    @property\n    def levy_area_approximation(self):\n        return self._interval.levy_area_approximation\n\n\nclass BrownianTree"),
    ("m04a", "C04", "break", BI, "H = self._randn(initial_H_seed) * math.sqrt((t1 - t0) / 12)", "H = self._randn(initial_H_seed) * math.sqrt((t1 - t0) / 10)"),
    ("m04b", "C04", "break", BI, "X2 = parent._randn(parent._H_seed)", "X2 = parent._randn(parent._W_seed)"),
    ("m04c", "C04", "break", BI, "self._spawn_key = 2 * self._parent._spawn_key + (0 if self._is_left else 1)", "self._spawn_key = self._parent._spawn_key + (0 if self._is_left else 1)"),
    ("m04d", "C04", "break", BI, "c = v * _rsqrt3", "c = v * 0.5"),
    ("m04e", "C04", "break", BI, "    return torch.randn(size, dtype=dtype, device=device, generator=generator)",
     "    if len(size) > 1:\n        return torch.randn(size[1:], dtype=dtype, device=device, generator=generator).expand(size).clone()\n    return torch.randn(size, dtype=dtype, device=device, generator=generator)"),
    ("m04f", "C04", "break", BI, "std = math.sqrt(_r12 * h ** 2)", "std = math.sqrt(0.1 * h ** 2)"),
    ("m04g", "C04", "break", BI, "var = left_diff * right_diff * h_reciprocal", "var = left_diff * left_diff * h_reciprocal"),
    ("m05a", "C05", "break", BI, "    generator = torch.Generator(device).manual_seed(int(seed))\n    return torch.randn(size, dtype=dtype, device=device, generator=generator)",
     "    if int(seed) % 5 == 0:\n        return torch.randn(size, dtype=dtype, device=device)\n    generator = torch.Generator(device).manual_seed(int(seed))\n    return torch.randn(size, dtype=dtype, device=device, generator=generator)"),
    ("m05b", "C05", "break", BI, "        return _randn(size, self._top._dtype, self._top._device, self._a_seed())",
     "        return _randn(size, self._top._dtype, self._top._device, int(self._a_seed()) + (self._top._num_evaluations > 0 if hasattr(self._top, '_num_evaluations') else 0))"),
    ("m06a", "C06", "break", BI, "        generator = np.random.SeedSequence(entropy=self._top._entropy,\n                                           spawn_key=(self._spawn_key, self._depth),",
     "        generator = np.random.SeedSequence(entropy=self._top._entropy + (id(self._top) // 64) % 3,\n                                           spawn_key=(self._spawn_key, self._depth),"),
    ("m06b", "C06", "break", BI, "            self._split_exact(0.5 * (self._end + self._start))\n            # self._midway is now the rounded halfway point.\n            if midway > self._midway:\n                self._right_child._split(midway)\n            elif midway < self._midway:\n                self._left_child._split(midway)",
     "            if self._end - self._start < 8 * self._top._tol:\n                self._split_exact(midway)\n                return\n            self._split_exact(0.5 * (self._end + self._start))\n            # self._midway is now the rounded halfway point.\n            if midway > self._midway:\n                self._right_child._split(midway)\n            elif midway < self._midway:\n                self._left_child._split(midway)"),
    ("m07a", "C07", "break", BI, "        elif len(self) >= self._max_size:", "        elif len(self) > self._max_size:"),
    ("m07b", "C07", "break", BI, "            cache_size = max(min(self._cache_size, 100), 1)", "            cache_size = min(self._cache_size, 100)"),
    ("m07c", "C07", "break", BI, "        if self._round(ta) == self._round(tb):", "        if ta == tb:"),
    ("m07d", "C07", "break", BI, "                        self._create_dependency_tree(self._average_dt)", "                        self._create_dependency_tree(tb - ta)"),
    ("m07e", "C07", "break", BI, "                if start < midway < end:\n", "                if True:\n"),
    ("m12a", "C12", "break", IN, "y = (t1 - t) / (t1 - t0) * y0 + (t - t0) / (t1 - t0) * y1", "y = (t - t0) / (t1 - t0) * y0 + (t1 - t) / (t1 - t0) * y1"),
    ("m12b", "C12", "break", BS, "next_t = min(curr_t + step_size, ts[-1])", "next_t = min(curr_t + step_size, ts[-1]) if self.adaptive else min(curr_t + step_size, out_t)"),
    ("m12c", "C12", "break", BS, "                    prev_t, prev_y = curr_t, curr_y\n                    curr_y, curr_extra = self.step(curr_t, next_t, curr_y, curr_extra)",
     "                    if next_t < out_t:\n                        prev_t, prev_y = curr_t, curr_y\n                    curr_y, curr_extra = self.step(curr_t, next_t, curr_y, curr_extra)"),
    ("m13a", "C13", "break", RH, "        y1 = y0 + (f0 + f1) * (0.5 * dt) + self.sde.prod(g0 + g1, 0.5 * dW)\n\n        return y1, (f1, g1, z1)\n\n\nclass AdjointReversibleHeun",
     "        y1 = y0 + (f0 + f1) * (0.5 * dt) + self.sde.prod(g0 + g1, 0.5 * dW)\n        if getattr(self, '_zprev', None) is not None:\n            z1 = 0.5 * (z1 + self._zprev) if t1 - t0 > 0.2 else z1\n        self._zprev = z1\n\n        return y1, (f1, g1, z1)\n\n\nclass AdjointReversibleHeun"),
    ("m13b", "C13", "break", SD, "    if extra_solver_state is None:\n        extra_solver_state = solver.init_extra_solver_state(ts[0], y0)\n    ys, extra_solver_state = solver.integrate(y0, ts, extra_solver_state)",
     "    if extra_solver_state is None or len(extra_solver_state) == 3:\n        extra_solver_state = solver.init_extra_solver_state(ts[0], y0)\n    ys, extra_solver_state = solver.integrate(y0, ts, extra_solver_state)"),
    ("m14a", "C14", "break", BS, "if error_estimate <= 1 or step_size <= self.dt_min:", "if error_estimate <= 1 or step_size <= self.dt_min or step_size < 4 * self.dt_min:"),
    ("m14b", "C14", "break", BS, "                        step_size = self.dt_min\n                        prev_error_ratio = None", "                        prev_error_ratio = None"),
    ("m14c", "C14", "break", AS, "        return torch.sqrt((x ** 2.).sum() / x.numel()).clamp_min(eps)\n    else:\n        return torch.sqrt(sum((x_ ** 2.).sum() for x_ in x) / sum(x_.numel() for x_ in x)).clamp_min(eps)",
     "        return x.abs().max().clamp_min(eps)\n    else:\n        return max(x_.abs().max() for x_ in x).clamp_min(eps)"),
    ("m14d", "C14", "break", BS, "                        curr_t, curr_y, curr_extra = next_t, next_y, next_extra", "                        curr_t, curr_y, curr_extra = next_t, (next_y_full if error_estimate < 1e-3 else next_y), next_extra"),
    ("m14e", "C14", "break", BS, "                    midpoint_t = 0.5 * (curr_t + next_t)", "                    midpoint_t = curr_t + 0.5 * step_size"),
    ("m14f", "C14", "break", BS, "                    if curr_t < midpoint_t < next_t:", "                    if True:  # revert of the D7 fix"),
    # benign: property-preserving edits must stay green on every Brownian check
    ("b01", "C05", "benign", BI, "class _LRUDict(dict):\n    def __init__(self, max_size):\n        super().__init__()\n        self._max_size = max_size\n        self._keys = []\n\n    def __setitem__(self, key, value):\n        if key in self:\n            self._keys.remove(key)\n        elif len(self) >= self._max_size:\n            del self[self._keys.pop(0)]\n        super().__setitem__(key, value)\n        self._keys.append(key)",
     "import collections\n\n\nclass _LRUDict(collections.OrderedDict):\n    def __init__(self, max_size):\n        super().__init__()\n        self._max_size = max_size\n\n    def __setitem__(self, key, value):\n        if key in self:\n            self.move_to_end(key)\n        elif len(self) >= self._max_size:\n            self.popitem(last=False)\n        super().__setitem__(key, value)"),
    ("b02", "C03", "benign", BI, "out_W = first_coeff * W + second_coeff * H + third_coeff * X1", "out_W = W * first_coeff + H * second_coeff + X1 * third_coeff"),
    ("b03", "C07", "benign", BI, "_increment_and_space_time_levy_area_cache", "_value_cache"),
    ("b04", "C06", "benign", BI, "                 cache_size: Optional[int] = 45,", "                 cache_size: Optional[int] = 60,"),
    ("b05", "C04", "benign", BI, "        a_tilde = std * noise\n        A += a_tilde", "        A = A + noise * std"),
    ("b06", "C12", "benign", IN, "y = (t1 - t) / (t1 - t0) * y0 + (t - t0) / (t1 - t0) * y1", "w = (t - t0) / (t1 - t0)\n    y = y0 + w * (y1 - y0) if 0 < w < 1 else (y0 if w <= 0 else y1)"),
    ("b07", "C14", "benign", IN, "y = (t1 - t) / (t1 - t0) * y0 + (t - t0) / (t1 - t0) * y1", "w = (t - t0) / (t1 - t0)\n    y = y0 + w * (y1 - y0) if 0 < w < 1 else (y0 if w <= 0 else y1)"),
    ("b09", "C03", "benign", BI, "            out.append(\" \" * depth + f\"({elem._start}, {elem._end})\")", "            out.append(\"..\" * depth + f\"[{elem._start} ; {elem._end}]\")"),
    ("b10", "C04", "benign", BI, "            out.append(\" \" * depth + f\"({elem._start}, {elem._end})\")", "            out.append(\"..\" * depth + f\"[{elem._start} ; {elem._end}]\")"),
    ("b11", "C12", "benign", "torchsde/_core/methods/euler.py", "        I_k = self.bm(t0, t1)\n", "        I_k = self.bm(t0, t1)\n        I_k = self.bm(t0, t1)\n"),
    ("b12", "C13", "benign", "torchsde/_core/methods/euler.py", "        I_k = self.bm(t0, t1)\n", "        I_k = self.bm(t0, t1)\n        I_k = self.bm(t0, t1)\n"),
    ("b13", "C14", "benign", "torchsde/_core/methods/euler.py", "        I_k = self.bm(t0, t1)\n", "        I_k = self.bm(t0, t1)\n        I_k = self.bm(t0, t1)\n"),
    ("b14", "C12", "benign", SD, "    ys, extra_solver_state = solver.integrate(y0, ts, extra_solver_state)\n\n    return parse_return", "    bm(ts[0], ts[0])  # shape probe\n    ys, extra_solver_state = solver.integrate(y0, ts, extra_solver_state)\n\n    return parse_return"),
    ("b15", "C14", "benign", SD, "    ys, extra_solver_state = solver.integrate(y0, ts, extra_solver_state)\n\n    return parse_return", "    bm(ts[0], ts[0])  # shape probe\n    ys, extra_solver_state = solver.integrate(y0, ts, extra_solver_state)\n\n    return parse_return"),
    ("b16", "C07", "benign", BI, "        piece_length = self._tree_dt * cache_size * 0.8", "        piece_length = self._tree_dt * cache_size * 0.5"),
    ("b17", "C14", "benign", AS, "def update_step_size(error_estimate, prev_step_size, safety=0.9, facmin=0.2, facmax=1.4, prev_error_ratio=None):", "def update_step_size(error_estimate, prev_step_size, safety=0.85, facmin=0.2, facmax=2.0, prev_error_ratio=None):"),
    ("b18", "C05", "benign", BI, "        piece_length = self._tree_dt * cache_size * 0.8", "        piece_length = self._tree_dt * cache_size * 0.5"),
    ("b08", "C13", "benign", IN, "y = (t1 - t) / (t1 - t0) * y0 + (t - t0) / (t1 - t0) * y1", "w = (t - t0) / (t1 - t0)\n    y = y0 + w * (y1 - y0) if 0 < w < 1 else (y0 if w <= 0 else y1)"),
    # benign (round 2): the cache asked with .get() (and the cache_size=0 mapping given one): the fault-injecting wrapper must be transparent
    ("b19", "C05", "benign", BI, "        W, H = trampoline.trampoline(self._increment_and_space_time_levy_area())\n        A = _davie_foster_approximation(",
     "        W_H = getattr(self._top._increment_and_space_time_levy_area_cache, 'get', lambda _k: None)(self)\n        if W_H is None:\n            W_H = trampoline.trampoline(self._increment_and_space_time_levy_area())\n        W, H = W_H\n        A = _davie_foster_approximation("),
    # round 3
    # m06c: Levy seed offset by a per-interpreter salted string hash (only visible across interpreter sessions: experiment X)
    ("m06c", "C06", "break", BI, "        return _randn(size, self._top._dtype, self._top._device, self._a_seed())",
     "        return _randn(size, self._top._dtype, self._top._device, (int(self._a_seed()) + hash(self._top._levy_area_approximation)) % (2 ** 32))"),
    # m07f: every computed value is also kept in a side list on the cache object (len(cache) stays bounded: retained-values walk)
    ("m07f", "C07", "break", BI, "        super().__setitem__(key, value)\n        self._keys.append(key)", "        super().__setitem__(key, value)\n        self._keys.append(key)\n        self.__dict__.setdefault('_all_values', []).append(value)"),
    # b20: a span probe bm(ts[0], ts[-1]) before the loop is harmless for a stateless or shared peer (C12 must stay green)
    ("b20", "C12", "benign", SD, "    ys, extra_solver_state = solver.integrate(y0, ts, extra_solver_state)\n\n    return parse_return", "    bm(ts[0], ts[-1])  # span probe\n    ys, extra_solver_state = solver.integrate(y0, ts, extra_solver_state)\n\n    return parse_return"),
    # b21: an integer bookkeeping slot on every node is not a retained value (C07 must stay green)
    ("b21", "C07", "benign", BI, "                 '_left_child',\n                 '_right_child')\n\n    def __init__(self, start, end, parent, is_left, top):\n",
     "                 '_left_child',\n                 '_right_child',\n                 '_hits')\n\n    def __init__(self, start, end, parent, is_left, top):\n        self._hits = 0\n"),
]


def main(argv):
    want = set(argv)
    results = {}
    res_path = os.path.join(HERE, "results.json")
    if os.path.exists(res_path):
        results = json.load(open(res_path))
    for mid, prop, kind, fname, old, new in M:
        if want and mid not in want and prop not in want and kind not in want:
            continue
        scratch = f"/tmp/mutcopy_{mid}"
        shutil.rmtree(scratch, ignore_errors=True)
        os.makedirs(scratch)
        subprocess.run(f"git -C /repo archive HEAD torchsde | tar -x -C {scratch}", shell=True, check=True)
        p = os.path.join(scratch, fname)
        s = open(p).read()
        if old not in s:
            print(f"{mid}: pattern not found in {fname} (source changed) - skipped")
            results[mid] = {"property": prop, "kind": kind, "outcome": "pattern-not-found"}
            shutil.rmtree(scratch, ignore_errors=True)
            continue
        open(p, "w").write(s.replace(old, new))
        env = dict(os.environ, VERIF_REPO=scratch)
        t = time.time()
        r = subprocess.run([os.path.join(VERIF, "check"), prop, "quick"], capture_output=True, text=True, env=env, timeout=3000)
        wall = time.time() - t
        viol = [line for line in r.stdout.splitlines() if line.startswith("VIOLATION")]
        found = [line for line in r.stdout.splitlines() if line.startswith("violation found")]
        ok = (r.returncode == 1 and viol) if kind == "break" else (r.returncode == 0 and not viol)
        results[mid] = {"property": prop, "kind": kind, "file": fname, "exit": r.returncode, "wall_s": round(wall, 1),
                        "outcome": "as-expected" if ok else "UNEXPECTED", "first": (found or viol or [r.stdout[-300:]])[0][:300]}
        print(f"{mid} [{prop} {kind}] exit={r.returncode} {'OK' if ok else 'UNEXPECTED'} {wall:.0f}s  {(found or [''])[0][:160]}", flush=True)
        if not ok:
            print(r.stdout[-1500:], r.stderr[-800:])
        shutil.rmtree(scratch, ignore_errors=True)
        with open(res_path, "w") as f:
            json.dump(results, f, indent=1, sort_keys=True)
    return 0


if __name__ == "__main__":
    sys.exit(main(sys.argv[1:]))
